"""Evaluate a seeded change (a worktree with patch.diff + demo) against the dexsim checks.

usage: python selftest/seeded.py <worktree> <property-id> [check ids to run ...]
Steps: (1) full test-suite with the change; (2) demo with and without the change;
(3) the listed checks (default: the property's own) with DEXSIM_SDK_SRC pointing at the changed tree."""

from __future__ import annotations

import json
import os
import subprocess
import sys
import time

ROOT = os.path.dirname(os.path.dirname(os.path.abspath(__file__)))


def sh(cmd, cwd, env=None, timeout=1800):
    e = dict(os.environ)
    if env:
        e.update(env)
    p = subprocess.run(cmd, shell=True, cwd=cwd, env=e, capture_output=True, text=True, timeout=timeout)
    return p.returncode, (p.stdout + p.stderr)


def main():
    wt, pid = sys.argv[1], sys.argv[2]
    checks = sys.argv[3:] or [pid]
    env = {"PYTHONPATH": f"{wt}/src"}
    res = {"worktree": wt, "property": pid}
    rc, out = sh("git diff --stat -- src | tail -1", wt)
    res["diffstat"] = out.strip()
    rc, out = sh("/venv/bin/python -m pytest -q -p no:cacheprovider -n 8 2>&1 | tail -1", wt, env)
    res["tests_with_change"] = out.strip()
    demo = f"demo_{pid}.py"
    rc1, out1 = sh(f"timeout 300 /venv/bin/python {demo} 2>&1 | tail -3", wt, env)
    rc1 = sh(f"timeout 300 /venv/bin/python {demo} >/dev/null 2>&1; echo $?", wt, env)[1].strip()
    res["demo_with_change"] = {"exit": rc1, "tail": out1.strip()[-400:]}
    sh("git diff -- src > .seeded_patch.diff && git checkout -- src", wt)  # per worktree: evaluations may run concurrently
    rc2 = sh(f"timeout 300 /venv/bin/python {demo} >/dev/null 2>&1; echo $?", wt, env)[1].strip()
    out2 = sh(f"timeout 300 /venv/bin/python {demo} 2>&1 | tail -2", wt, env)[1]
    res["demo_without_change"] = {"exit": rc2, "tail": out2.strip()[-300:]}
    sh("git apply .seeded_patch.diff && rm -f .seeded_patch.diff", wt)
    res["checks"] = {}
    os.makedirs("/tmp/seeded_ev", exist_ok=True)
    for c in checks:
        tier = "quick"
        if ":" in c:
            c, tier = c.split(":")
        t = time.time()
        rc, out = sh(f"/venv/bin/python -m dexsim check {c} --tier {tier}", ROOT,
                     {"DEXSIM_SDK_SRC": f"{wt}/src", "DEXSIM_EVIDENCE_DIR": "/tmp/seeded_ev", "DEXSIM_OUT_DIR": f"/tmp/seeded_out"})
        lines = [l for l in out.splitlines() if l.startswith("VIOLATION") or l.startswith("  class=") or l.startswith("HARNESS")]
        res["checks"][f"{c}:{tier}"] = {"exit": rc, "wall": round(time.time() - t, 1), "lines": lines[:8]}
    print(json.dumps(res, indent=1))


if __name__ == "__main__":
    main()
