"""Reach measurement: which lines of the SDK do the checks' workloads never execute?

usage: python selftest/coverage.py [--cases N] [--checks C01,C02,...] [--out file.json]
Runs N cases of every check (fault-free run + its fault plans, exactly as the batch does) with line tracing forced on
and records every SDK line executed by a simulated thread. Prints, per SDK file, the executable lines never reached,
grouped by function. A blind spot of the workloads shows up here before a seeded change finds it."""

from __future__ import annotations

import argparse
import json
import multiprocessing
import os
import sys
from concurrent.futures import ProcessPoolExecutor

ROOT = os.path.dirname(os.path.dirname(os.path.abspath(__file__)))
sys.path.insert(0, ROOT)


def _one(args):
    check_id, seed_i = args
    from dexsim import checks, runner, seams, sim
    seams.install()
    sim.COVER = set()
    chk = checks.CHECKS[check_id]
    orig_make = chk.make_cfg if not chk.component else None
    if chk.component:
        g = chk.gen

        def gen2(s):
            c = g(s)
            c["sched"] = dict(c["sched"], lines=True)
            return c
        chk.gen = gen2
    else:
        def make2(seed, prof):
            c = orig_make(seed, prof)
            c["sched"] = dict(c["sched"], lines=True, p_line=c["sched"].get("p_line", 0.0))
            return c
        chk.make_cfg = make2
    try:
        runner.run_case(check_id, seed_i, "quick")
    except Exception as e:  # noqa: BLE001
        print("case failed", check_id, seed_i, repr(e)[:200], file=sys.stderr)
    return sorted(sim.COVER)


def executable_lines(path):
    src = open(path).read()
    code = compile(src, path, "exec")
    out = {}

    def walk(co, qual):
        lines = {ln for _, _, ln in co.co_lines() if ln is not None}
        lines.discard(co.co_firstlineno)
        for c in co.co_consts:
            if hasattr(c, "co_code"):
                walk(c, (qual + "." if qual else "") + c.co_name)
                lines -= {c.co_firstlineno}
        if qual and co.co_flags & 0x1:  # CO_OPTIMIZED: a function body (class bodies run at import time)
            for ln in lines:
                out.setdefault(ln, qual)

    walk(code, "")
    return out


def main():
    ap = argparse.ArgumentParser()
    ap.add_argument("--cases", type=int, default=40)
    ap.add_argument("--checks", default="")
    ap.add_argument("--out", default="")
    a = ap.parse_args()
    from dexsim import checks, runner, seams
    ids = a.checks.split(",") if a.checks else list(checks.CHECKS)
    jobs = [(cid, runner.H(777, cid, i)) for cid in ids for i in range(a.cases)]
    cover = set()
    ctx = multiprocessing.get_context("fork")
    with ProcessPoolExecutor(16, mp_context=ctx) as ex:
        for lines in ex.map(_one, jobs, chunksize=2):
            cover.update(tuple(x) for x in lines)
    src = seams.sdk_src()
    report = {}
    tot = hit = 0
    for dirpath, _, files in os.walk(src):
        for f in sorted(files):
            if not f.endswith(".py"):
                continue
            path = os.path.join(dirpath, f)
            ex_lines = executable_lines(path)
            missed = {}
            for ln, fn in sorted(ex_lines.items()):
                tot += 1
                if (path, ln) in cover:
                    hit += 1
                else:
                    missed.setdefault(fn, []).append(ln)
            if missed:
                report[os.path.relpath(path, src)] = missed
    print(f"SDK lines inside functions: {tot}, executed by simulated threads: {hit} ({100.0 * hit / max(tot, 1):.1f}%)")
    for f, m in report.items():
        print(f"== {f}")
        for fn, lns in m.items():
            print(f"   {fn}: {lns}")
    if a.out:
        json.dump(report, open(a.out, "w"), indent=1)


if __name__ == "__main__":
    os.environ.setdefault("PYTHONHASHSEED", "0")
    main()
