"""Per-property check definitions: workload profile, fault plans, oracle, non-triviality
rule and reach probes. See DESIGN.md section 8."""

from __future__ import annotations

import random

from dexsim import gen, oracles
from dexsim.backend import TERMINAL
from dexsim.runner import H, gen_fault_plan

COMMON_ASSUMPTIONS = [
    "A-backend: reference backend model of the durable-execution service (DESIGN.md 3.1): RETRY increments Attempt, "
    "PENDING->READY exactly at NextAttemptTimestamp, START allowed on absent or READY, batches apply atomically in order, "
    "responses carry every operation changed since the presented token",
    "checkpoint error classification follows the rule the code documents and the test-suite pins (4xx except 429 / invalid token => Lambda retry)",
    "computation takes zero virtual time; interleavings that need CPU time are reached through stall faults and line pre-emption",
    "atomicity granularity is one source line of SDK code (sys.settrace) at best, otherwise one synchronisation operation",
    "one invocation at a time; leftover threads of a returned invocation are drained for a bounded virtual time, then frozen",
    "trusted base: simulated primitives, backend model, program interpreter, CPython",
]


def amo_positions(program):
    out = set()

    def walk(body, prefix):
        for n, st in enumerate(body):
            pos = f"{prefix}.{n}"
            one(st, pos)

    def one(st, pos):
        op = st["op"]
        if op == "try":
            one(st["stmt"], pos + "t")
            walk(st.get("handler", []), pos + "/h")
        elif op == "step" and st.get("sem") == "amo":
            out.add(pos)
        elif op == "callback":
            walk(st.get("between", []), pos + "/w")
        elif op == "child":
            walk(st["body"], pos + "/c")
        elif op == "parallel":
            for b, br in enumerate(st["branches"]):
                walk(br["body"], f"{pos}/b{b}")
        elif op == "map":
            bodies = st.get("bodies") or [st["body"]] * len(st["items"])
            for b, body in enumerate(bodies):
                walk(body, f"{pos}/b{b}")

    walk(program["body"], "r")
    return out


class Check:
    component = None
    level = "exploration"
    rule = ""
    assumptions = COMMON_ASSUMPTIONS
    base_profile = {}
    quick_cases = 400
    thorough_cases = 6000
    quick_wall = 100
    thorough_wall = 780
    faults_quick = 4
    faults_thorough = 8

    def __init__(self, pid):
        self.id = pid

    def profile(self, tier):
        p = dict(self.base_profile)
        p["tier"] = tier
        return p

    def cases(self, tier):
        return self.quick_cases if tier == "quick" else self.thorough_cases

    def wall(self, tier):
        return self.quick_wall if tier == "quick" else self.thorough_wall

    def min_budget(self, tier):
        return 150 if tier == "quick" else 300

    def make_cfg(self, seed_i, prof):
        program, ext = gen.gen_program(random.Random(H(seed_i, "prog")), prof)
        knobs = gen.gen_knobs(random.Random(H(seed_i, "knobs")), prof)
        sched = gen.gen_sched(random.Random(H(seed_i, "sched")), prof)
        cfg = {"program": program, "externals": ext, "seed": seed_i % (1 << 31), "sched": sched, "faults": [],
               "max_inv": prof.get("max_inv", 60)}
        cfg.update(knobs)
        self.tune(cfg, prof, random.Random(H(seed_i, "tune")))
        return cfg

    def tune(self, cfg, prof, rng):
        pass

    def fault_plans(self, rng, st, prof, tier, cfg, w):
        n = self.faults_quick if tier == "quick" else self.faults_thorough
        return [p for p in (gen_fault_plan(rng, st, prof) for _ in range(n)) if p]

    def oracle(self, ix, cfg, golden):
        raise NotImplementedError

    def nontrivial(self, w, ix, cfg):
        return len(w.invocations) > 1

    def reach(self, w, ix, cfg):
        return {}

    def required_reach(self, tier):
        return []


def replayed_terminal(w):
    """Number of (invocation, operation) pairs where a later invocation found a terminal op."""
    n = 0
    for i in w.invocations[1:]:
        n += sum(1 for s in i["hist"].values() if s in TERMINAL)
    return n


class C01(Check):
    rule = ("case = (generated program, external script, knobs, schedule, fault plan); one fault-free run plus crash/suspension "
            "variants per seed; non-trivial iff a later invocation found >=1 terminal operation in its history; distinct by "
            "hash(program, fault plan, per-invocation outcome + history status vector + switch count)")
    base_profile = {"amo_p": 0.1}

    def oracle(self, ix, cfg, golden):
        return oracles.check_c01(ix)

    def nontrivial(self, w, ix, cfg):
        return replayed_terminal(w) > 0

    def reach(self, w, ix, cfg):
        r = {}
        for i in w.invocations[1:]:
            for name, s in i["hist_names"].items():
                if s in TERMINAL:
                    r["replayed-terminal"] = r.get("replayed-terminal", 0) + 1
        if any(i["outcome"] == "crash" for i in w.invocations):
            r["crashed-invocation"] = 1
        if any((b.get("first_page") or 0) < b.get("n_hist", 0) for b in ix.kinds["inv-begin"]):
            r["multi-page-history"] = 1
        if any(e.get("rc") and e.get("status") == "SUCCEEDED" for e in ix.kinds["body-enter"]):
            r["replay-children-traversal"] = 1
        return r

    def required_reach(self, tier):
        return ["replayed-terminal", "crashed-invocation", "multi-page-history", "crash:api-lost-ack"]


class C02(Check):
    rule = ("deterministic programs (no at-most-once steps, no completion-order dependent map/parallel config); per-position "
            "delivery log compared across invocations and final outcome compared with the fault-free run; non-trivial iff some "
            "position was delivered in >=2 invocations")
    base_profile = {"amo_p": 0.0, "early_exit": False, "rich": True}

    def oracle(self, ix, cfg, golden):
        vs = oracles.check_c02(ix)
        if cfg.get("faults"):
            if golden is None:
                from dexsim.driver import run_execution
                g = dict(cfg)
                g["faults"] = []
                g.pop("choices", None)
                gf = oracles.final_outcome(run_execution(g))
            else:
                gf = tuple(golden["final"])
            mine = oracles.final_outcome(ix.w)
            if mine[0] in ("SUCCEEDED", "FAILED") and gf[0] in ("SUCCEEDED", "FAILED") and tuple(mine) != tuple(gf):
                vs.append(oracles.V("C02", "final-outcome-changed", f"fault-free run ended {str(gf)[:200]} but with faults "
                                    f"{cfg['faults']} it ended {str(mine)[:200]}"))
        return vs

    def nontrivial(self, w, ix, cfg):
        for ds in ix.deliveries.values():
            if len({d["inv"] for d in ds if d["how"] != "abort"}) >= 2:
                return True
        return False

    def reach(self, w, ix, cfg):
        r = {}
        if any(d["how"] == "raise" and len(ds) > 1 for ds in ix.deliveries.values() for d in ds):
            r["error-replayed"] = 1
        if ix.kinds["caught"]:
            r["user-try-caught"] = 1
        return r

    def required_reach(self, tier):
        return ["error-replayed", "user-try-caught"]


class C03(Check):
    rule = ("C01 workload with API latency > 0 and stalls; event-order oracle (sequence numbers only); non-trivial iff >=1 API "
            "call was in flight while another thread ran")
    base_profile = {"amo_p": 0.15, "fault_kinds": ["crash-api", "crash-fn", "apierr", "apierr", "spurious"]}

    def tune(self, cfg, prof, rng):
        cfg["latency"] = rng.choice([[0.01, 0.3], [0.05, 1.5], [0.5, 4.0]])
        if cfg["sched"].get("policy") == "walk":
            cfg["sched"]["stall_p"] = rng.choice([0.005, 0.02, 0.05])

    def oracle(self, ix, cfg, golden):
        return oracles.check_c03(ix)

    def nontrivial(self, w, ix, cfg):
        begins = {e["call"]: e for e in ix.kinds["api-begin"]}
        for e in ix.kinds["api-end"]:
            b = begins.get(e["call"])
            if b is not None and e["s"] - b["s"] > 2:
                return True
        return False

    def reach(self, w, ix, cfg):
        r = {}
        by_call = {}
        for e in ix.kinds["applied"]:
            by_call.setdefault(e["call"], []).append(e)
        for evs in by_call.values():
            if len(evs) >= 2:
                r["batch-of-2+"] = r.get("batch-of-2+", 0) + 1
        if any(x["outcome"] == "PENDING" for x in ix.inv_return.values()):
            r["pending-return"] = 1
        return r

    def required_reach(self, tier):
        return ["batch-of-2+", "pending-return"]


class C04(Check):
    level = "fault_enumeration"
    rule = ("programs dominated by at-most-once steps; for every attempt of every such step in the fault-free run, every crash "
            "site between 'START handed over' and 'outcome applied' is enumerated (API call before/after apply, function "
            "entry/inside/exit); non-trivial iff a crash landed inside the window of some attempt")
    base_profile = {"amo_p": 0.8, "weights": {"step": 10, "parallel": 1, "map": 0, "child": 1, "callback": 0, "wfc": 0,
                                              "invoke": 0, "wfcond": 0, "wait": 1, "log": 0},
                    "swarm": False, "fail_p": 0.6, "max_ops": 8, "top_hi": 4}
    quick_cases = 250

    def fault_plans(self, rng, st, prof, tier, cfg, w):
        plans = []
        amo = amo_positions(cfg["program"])
        fn_ns = [e["n"] for e in w.trace if e["k"] == "fn-enter" and e["pos"] in amo]
        for n in fn_ns:
            for ph in ("entry", "inside", "exit"):
                plans.append([{"kind": "crash", "at": "fn", "n": n, "phase": ph}])
        for k in range(1, w.api_calls + 1):
            for ph in ("before", "after"):
                plans.append([{"kind": "crash", "at": "api", "call": k, "phase": ph}])
        cap = 40 if tier == "quick" else 400
        if len(plans) > cap:
            rng.shuffle(plans)
            plans = plans[:cap]
        return plans

    def oracle(self, ix, cfg, golden):
        return oracles.check_c04(ix, amo_positions(cfg["program"]))

    def nontrivial(self, w, ix, cfg):
        return any(i["outcome"] == "crash" for i in w.invocations) and bool(amo_positions(cfg["program"]))

    def reach(self, w, ix, cfg):
        r = {}
        amo = amo_positions(cfg["program"])
        for e in ix.kinds["fn-enter"]:
            if e["pos"] in amo:
                r["amo-attempt-1" if e["attempt"] == 1 else "amo-attempt-2+"] = 1
        for i in w.invocations[1:]:
            for name, s in i["hist_names"].items():
                if name in amo and s in ("STARTED", "READY"):
                    r["amo-%s-on-replay" % s] = 1
        return r

    def required_reach(self, tier):
        return ["amo-attempt-1", "amo-attempt-2+", "amo-STARTED-on-replay", "amo-READY-on-replay", "crash:fn-inside"]


class C06(Check):
    level = "fault_enumeration"
    rule = ("for each sampled (program, schedule) the fault-free run counts its API calls; the check then fails call k for every "
            "k with a sampled error class (all classes in thorough), plain and applied-then-error; non-trivial iff the failing call "
            "carried >=1 update")
    base_profile = {"amo_p": 0.2, "max_ops": 10, "weights": {"parallel": 4, "map": 2}, "lines_p": 0.5}
    quick_cases = 250

    def tune(self, cfg, prof, rng):
        if cfg["sched"].get("policy") == "walk":
            cfg["sched"]["stall_p"] = rng.choice([0.0, 0.01, 0.04])
        cfg["stop_on_raise"] = False

    def fault_plans(self, rng, st, prof, tier, cfg, w):
        classes = ["500", "503", "429", "400", "400tok", "403", "404", "conn"]
        plans = []
        for k in range(1, w.api_calls + 1):
            cl = classes if tier == "thorough" else rng.sample(classes, 2)
            for c in cl:
                plans.append([{"kind": "apierr", "call": k, "err": c, "applied": rng.random() < 0.25}])
        cap = 40 if tier == "quick" else 500
        if len(plans) > cap:
            rng.shuffle(plans)
            plans = plans[:cap]
        return plans

    def oracle(self, ix, cfg, golden):
        return oracles.check_c06(ix, amo_positions(cfg["program"]))

    def nontrivial(self, w, ix, cfg):
        begins = {e["call"]: e for e in ix.kinds["api-begin"]}
        return any(not e.get("ok") and begins.get(e["call"], {}).get("n", 0) > 0 for e in ix.kinds["api-end"])

    def reach(self, w, ix, cfg):
        r = {}
        for e in ix.kinds["api-end"]:
            if not e.get("ok") and e.get("err"):
                b = next((b for b in ix.kinds["api-begin"] if b["call"] == e["call"]), None)
                r["failed-call"] = r.get("failed-call", 0) + 1
                if b and b["n"] == 0:
                    r["failed-empty-checkpoint"] = 1
                if b and b["op"] == "get":
                    r["failed-get-state"] = 1
                # was some branch alive?
                if any(x["i"] == e["i"] and x.get("bkind") == "branch" for x in ix.kinds["body-enter"]):
                    r["failure-with-branches"] = 1
        for i in w.invocations:
            if i["outcome"] == "raise":
                r["invocation-raised"] = 1
            if i["outcome"] == "FAILED":
                r["invocation-failed"] = 1
        return r

    def required_reach(self, tier):
        return ["failed-call", "failure-with-branches", "invocation-raised", "invocation-failed"]


class C07(Check):
    rule = ("programs mixing waits, retries, callbacks, invokes, wait_for_condition at top level and in nested map/parallel; "
            "soundness checked at every PENDING return, liveness as termination within a bounded number of invocations once "
            "faults stop; non-trivial iff >=1 PENDING return")
    base_profile = {"weights": {"wait": 4, "callback": 2, "wfc": 2, "invoke": 2, "wfcond": 2, "parallel": 4, "map": 2, "step": 4},
                    "fault_kinds": ["crash-api", "crash-fn", "crash-step", "spurious", "spurious"],
                    "blocks": [0, 0, 0.05, 0.5, 2.0, 8.0]}

    def oracle(self, ix, cfg, golden):
        return oracles.check_c07(ix)

    def nontrivial(self, w, ix, cfg):
        return any(i["outcome"] == "PENDING" for i in w.invocations)

    def reach(self, w, ix, cfg):
        r = {}
        for inv, ret in ix.inv_return.items():
            if ret["outcome"] != "PENDING":
                continue
            kinds = set()
            for pos, ds in ix.deliveries.items():
                for d in ds:
                    if d["inv"] == inv and d["how"] == "abort" and d["op"] in oracles.LEAF_OPS and oracles.ctx_pos(pos)[0] == "branch":
                        kinds.add("timer" if d["cls"] == "TimedSuspendExecution" else "event")
            if kinds == {"timer", "event"}:
                r["pending-timer-and-event-branches"] = 1
            if kinds:
                r["pending-from-branch"] = 1
        for i in w.invocations[1:]:
            if "PENDING" in i["hist"].values():
                r["pending-step-on-replay"] = 1
            if i["why"] == "spurious":
                r["spurious-wakeup"] = 1
        # in-process resubmission: a branch body entered twice in one invocation
        seen = set()
        for e in ix.kinds["body-enter"]:
            if e.get("bkind") == "branch":
                key = (e["i"], e["pos"])
                if key in seen:
                    r["in-process-resubmission"] = 1
                seen.add(key)
        return r

    def required_reach(self, tier):
        return ["pending-from-branch", "in-process-resubmission", "spurious-wakeup"]


class C08(Check):
    rule = ("nested child/map/parallel programs; the same program is run under several schedules and crash plans and all update "
            "streams are checked together: path->Id is a function, injective, ParentId = Id(enclosing context); non-trivial iff "
            "depth >=2 with >=2 sibling branches observed in >=2 invocations")
    base_profile = {"weights": {"child": 4, "parallel": 4, "map": 3, "step": 5, "wait": 2, "wfc": 1, "callback": 1},
                    "max_depth": 3, "max_ops": 22, "fail_p": 0.15}
    quick_cases = 300

    def oracle(self, ix, cfg, golden):
        # single-execution part; the cross-execution part is done in run_case via `cross`
        return oracles.check_c08(ix)

    def nontrivial(self, w, ix, cfg):
        branches = {e["pos"] for e in ix.kinds["body-enter"] if e.get("bkind") == "branch"}
        return len(branches) >= 2 and len(w.invocations) >= 2

    def reach(self, w, ix, cfg):
        r = {}
        order = {}
        for e in ix.kinds["body-enter"]:
            if e.get("bkind") == "branch":
                order.setdefault((e["i"], e["parent"]), []).append(e["index"])
        if any(o != sorted(o) for o in order.values()):
            r["branches-out-of-index-order"] = 1
        if any(oracles.ctx_pos(e["pos"])[0] == "branch" and "/b" in oracles.ctx_pos(e["pos"])[1] for e in ix.kinds["call-begin"]):
            r["nested-branch-depth-2"] = 1
        return r

    def required_reach(self, tier):
        return ["branches-out-of-index-order", "nested-branch-depth-2"]


class C10(Check):
    rule = ("early-completion map/parallel configs with surviving branches that are inside a long user function, between two "
            "operations or about to start a new operation when the parent returns; more top-level work follows; non-trivial iff "
            ">=1 branch was still alive when its parent's call returned")
    base_profile = {"weights": {"parallel": 6, "map": 3, "step": 6, "child": 2, "wait": 1, "callback": 0, "wfc": 0, "invoke": 0,
                                "wfcond": 0}, "swarm": False, "blocks": [0, 0.05, 0.5, 2.0, 4.0], "cfg_p": 1.0, "max_ops": 16,
                    "fault_kinds": ["crash-api", "crash-step"], "lines_p": 0.4}

    def tune(self, cfg, prof, rng):
        cfg["drain"] = rng.choice([2.0, 6.0])
        # bias configs towards early exit
        def walk(body):
            for st in body:
                s = st["stmt"] if st["op"] == "try" else st
                if s["op"] in ("parallel", "map"):
                    nb = len(s["branches"]) if s["op"] == "parallel" else len(s["items"])
                    if rng.random() < 0.7:
                        s["cfg"] = dict(s.get("cfg") or {})
                        s["cfg"]["min"] = rng.randrange(1, max(2, nb))
                    for br in (s["branches"] if s["op"] == "parallel" else [{"body": b} for b in s["bodies"]]):
                        walk(br["body"])
                elif s["op"] == "child":
                    walk(s["body"])
        walk(cfg["program"]["body"])

    def oracle(self, ix, cfg, golden):
        return oracles.check_c10(ix)

    def _orphans(self, ix):
        n = 0
        for pos, ds in ix.deliveries.items():
            for d in ds:
                if d["op"] in ("parallel", "map") and d["how"] in ("ret", "raise"):
                    for e in ix.kinds["body-exit"]:
                        if e["i"] == d["inv"] and e.get("parent") == pos and e["s"] > d["s1"]:
                            n += 1
        return n

    def nontrivial(self, w, ix, cfg):
        return self._orphans(ix) > 0

    def reach(self, w, ix, cfg):
        r = {}
        if self._orphans(ix):
            r["orphan-alive-after-parent-returned"] = 1
        if any(e["k"] == "call-abort" and e["cls"] == "OrphanedChildException" for e in ix.kinds["call-abort"]):
            r["orphan-rejected"] = 1
        return r

    def required_reach(self, tier):
        return ["orphan-alive-after-parent-returned", "orphan-rejected"]


class C11(Check):
    rule = ("C01 workload; the backend's lifecycle automaton is run over the concatenated update stream of all invocations; "
            "non-trivial iff >=2 invocations contributed updates")
    base_profile = {"amo_p": 0.2}

    def oracle(self, ix, cfg, golden):
        return oracles.check_c11(ix)

    def nontrivial(self, w, ix, cfg):
        return len({e["i"] for e in ix.kinds["applied"]}) >= 2

    def reach(self, w, ix, cfg):
        r = {}
        for e in ix.kinds["applied"]:
            r[f"{e['type']}:{e['action']}"] = 1
        if any(i["outcome"] == "crash" for i in w.invocations) and len({e["i"] for e in ix.kinds["applied"]}) >= 2:
            r["stream-continued-after-crash"] = 1
        return r

    def required_reach(self, tier):
        return ["STEP:START", "STEP:SUCCEED", "STEP:RETRY", "STEP:FAIL", "CONTEXT:START", "CONTEXT:SUCCEED", "CONTEXT:FAIL",
                "WAIT:START", "CALLBACK:START", "CHAINED_INVOKE:START", "stream-continued-after-crash"]


class C12(Check):
    rule = ("steps with failure scripts under packaged, configured and scripted retry strategies; crashes between and inside "
            "attempts; every strategy call, RETRY record, function entry and delay is checked against a reference model of the "
            "strategy; non-trivial iff >=1 RETRY record was applied")
    base_profile = {"amo_p": 0.15, "fail_p": 0.75, "try_p": 0.9, "swarm": False, "max_ops": 9, "top_hi": 4,
                    "weights": {"step": 10, "parallel": 2, "map": 1, "child": 1, "wait": 1, "callback": 0, "wfc": 1, "invoke": 0,
                                "wfcond": 0, "log": 0},
                    "fault_kinds": ["crash-api", "crash-fn", "crash-step", "spurious"]}

    def oracle(self, ix, cfg, golden):
        return oracles.check_c12(ix, cfg)

    def nontrivial(self, w, ix, cfg):
        return any(e["action"] == "RETRY" for e in ix.kinds["applied"])

    def reach(self, w, ix, cfg):
        r = {}
        for e in ix.kinds["strategy"]:
            if not e["retry"]:
                r["strategy-declined"] = 1
            if e["retry"] and e["delay"] < 1:
                r["delay-clamped-to-1"] = 1
            if oracles.ctx_pos(e["pos"])[0] == "branch":
                r["strategy-in-branch"] = 1
        for i in w.invocations[1:]:
            if "PENDING" in i["hist"].values():
                r["pending-on-replay"] = 1
        return r

    def required_reach(self, tier):
        return ["strategy-declined", "delay-clamped-to-1", "strategy-in-branch", "pending-on-replay"]


class C13(Check):
    rule = ("wait_for_condition with scripted check results (values of the serializer's domain) and scripted strategy decisions "
            "(delays including 0), polls spread over many invocations and inside branches, crashes between and inside polls; "
            "non-trivial iff >=2 polls ran in different invocations")
    base_profile = {"swarm": False, "max_ops": 8, "top_hi": 4, "check_fail_p": 0.15,
                    "weights": {"step": 3, "wfcond": 8, "parallel": 2, "map": 1, "child": 1, "wait": 1, "callback": 0, "wfc": 0,
                                "invoke": 0, "log": 0},
                    "fault_kinds": ["crash-api", "crash-fn", "crash-step", "spurious"]}

    def oracle(self, ix, cfg, golden):
        return oracles.check_c13(ix, cfg)

    def nontrivial(self, w, ix, cfg):
        by = {}
        for e in ix.kinds["check-enter"]:
            by.setdefault(e["pos"], set()).add(e["i"])
        return any(len(v) >= 2 for v in by.values())

    def reach(self, w, ix, cfg):
        r = {}
        exits = {(e["pos"], e["n"]) for e in ix.kinds["fn-exit"]}
        for e in ix.kinds["fn-enter"]:
            if e["fn"] == "check":
                if (e["pos"], e["n"]) not in exits:
                    r["crash-inside-poll"] = 1
                if e.get("status") == "READY":
                    r["READY-on-poll"] = 1
                if e.get("status") == "STARTED" and e["attempt"] >= 2:
                    r["STARTED-with-payload-on-poll"] = 1
        cpos = {c["pos"] for c in ix.kinds["check-enter"]}
        if any(e.get("outcome") == "raise" and e["pos"] in cpos for e in ix.kinds["fn-exit"]):
            r["check-raised"] = 1
        if any(ws["cont"] and ws["delay"] == 0 for ws in ix.kinds["wstrategy"]):
            r["continue-with-delay-0"] = 1
        return r

    def required_reach(self, tier):
        return ["crash-inside-poll", "READY-on-poll", "check-raised", "continue-with-delay-0"]


class C14(Check):
    rule = ("create_callback ... code ... result(), wait_for_callback and invoke with scripted external parties (success, failure, "
            "timeout, cancel, stop; completing before the START response, during the invocation or after suspension); non-trivial "
            "iff a callback/invoke was observed in >=2 invocations")
    base_profile = {"swarm": False, "max_ops": 9, "top_hi": 5,
                    "weights": {"step": 3, "callback": 6, "wfc": 5, "invoke": 6, "parallel": 2, "map": 1, "child": 1, "wait": 1,
                                "wfcond": 0, "log": 0},
                    "fault_kinds": ["crash-api", "crash-fn", "crash-step", "spurious"]}

    def oracle(self, ix, cfg, golden):
        return oracles.check_c14(ix, cfg)

    def nontrivial(self, w, ix, cfg):
        for pos, ds in ix.deliveries.items():
            if ds and ds[0]["op"] in ("callback", "wfc", "invoke") and len({d["inv"] for d in ds}) >= 2:
                return True
        return False

    def reach(self, w, ix, cfg):
        r = {}
        for e in ix.kinds["world"]:
            if e["what"].startswith("external-"):
                r["ext:" + e["status"]] = 1
            if e["what"] == "cb-timeout":
                r["ext:TIMED_OUT"] = 1
        for e in ix.kinds["applied"]:
            if e["type"] in ("CALLBACK", "CHAINED_INVOKE") and e["action"] == "START" and e["after"] in TERMINAL:
                r["completed-in-start-response"] = 1
        for e in ix.kinds["world"]:
            if e["what"].startswith("external-") and e["i"] in ix.inv_return and ix.inv_return[e["i"]]["s"] > e["s"]:
                r["completed-while-invocation-running"] = 1
        return r

    def required_reach(self, tier):
        return ["ext:SUCCEEDED", "ext:FAILED", "ext:TIMED_OUT", "ext:CANCELLED", "ext:STOPPED", "completed-while-invocation-running"]


CHECKS = {c.id: c for c in [C01("C01"), C02("C02"), C03("C03"), C04("C04"), C06("C06"), C07("C07"), C08("C08"),
                            C10("C10"), C11("C11"), C12("C12"), C13("C13"), C14("C14")]}
