"""Simulated replacements for the `threading` names the SDK and concurrent.futures use.

Every operation is one scheduling point; blocked waiters are all made runnable on a
state change and re-check their predicate, so which waiter wins is a scheduler choice.
An operation issued by a non-simulated thread, or on a primitive whose simulator has
finished, is inert: it never yields, never blocks, never raises.
"""

from __future__ import annotations

from collections import deque

from dexsim import sim as _sim


def _cur_sim():
    s = _sim.CURRENT
    if s is None:
        raise _sim.HarnessError("simulated primitive created outside a simulation")
    return s


class _Prim:
    __slots__ = ("_sim", "_waiters", "__weakref__")

    def __init__(self):
        self._sim = _sim.CURRENT
        self._waiters = []

    def _wake_all(self):
        s = self._sim
        ws = self._waiters
        if ws:
            self._waiters = []
            for t in ws:
                if t.state == _sim.BLOCKED and t.wait_obj is self:
                    s._make_runnable(t, "notify")

    def _block(self, cur, timeout, desc):
        self._waiters.append(cur)
        reason = self._sim.block(cur, self, timeout, False, desc)
        if reason == "timeout":
            try:
                self._waiters.remove(cur)
            except ValueError:
                pass
        return reason


class Lock(_Prim):
    __slots__ = ("_owner", "_locked")

    def __init__(self):
        super().__init__()
        self._locked = False
        self._owner = None

    def acquire(self, blocking=True, timeout=-1):
        s = self._sim
        cur = s.cur() if s is not None else None
        if cur is None:
            self._locked = True
            return True
        s.yield_point(cur, "lock")
        deadline = None if timeout is None or timeout < 0 else s.clock.now + timeout
        while self._locked:
            if not blocking:
                return False
            rem = None
            if deadline is not None:
                rem = deadline - s.clock.now
                if rem <= 0:
                    return False
            self._block(cur, rem, "Lock.acquire")
        self._locked = True
        self._owner = cur
        return True

    def release(self):
        s = self._sim
        cur = s.cur() if s is not None else None
        if cur is None:
            self._locked = False
            return
        if not self._locked:
            raise RuntimeError("release unlocked lock")
        self._locked = False
        self._owner = None
        self._wake_all()

    def locked(self):
        return self._locked

    __enter__ = acquire

    def __exit__(self, *a):
        self.release()

    def _at_fork_reinit(self):
        self._locked = False


class RLock(_Prim):
    __slots__ = ("_owner", "_count")

    def __init__(self):
        super().__init__()
        self._owner = None
        self._count = 0

    def acquire(self, blocking=True, timeout=-1):
        s = self._sim
        cur = s.cur() if s is not None else None
        if cur is None:
            self._count += 1
            return True
        if self._owner is cur:
            self._count += 1
            return True
        s.yield_point(cur, "lock")
        deadline = None if timeout is None or timeout < 0 else s.clock.now + timeout
        while self._owner is not None:
            if not blocking:
                return False
            rem = None
            if deadline is not None:
                rem = deadline - s.clock.now
                if rem <= 0:
                    return False
            self._block(cur, rem, "RLock.acquire")
        self._owner = cur
        self._count = 1
        return True

    def release(self):
        s = self._sim
        cur = s.cur() if s is not None else None
        if cur is None:
            self._count = max(0, self._count - 1)
            if not self._count:
                self._owner = None
            return
        if self._owner is not cur:
            raise RuntimeError("cannot release un-acquired lock")
        self._count -= 1
        if not self._count:
            self._owner = None
            self._wake_all()

    __enter__ = acquire

    def __exit__(self, *a):
        self.release()

    # Condition support
    def _release_save(self):
        st = (self._count, self._owner)
        self._count = 0
        self._owner = None
        self._wake_all()
        return st

    def _acquire_restore(self, st, cur):
        while self._owner is not None:
            self._block(cur, None, "RLock.reacquire")
        self._count, self._owner = st

    def _is_owned(self, cur):
        return self._owner is cur


class Condition:
    def __init__(self, lock=None):
        self._sim = _sim.CURRENT
        self._lock = lock if lock is not None else RLock()
        self._cwaiters = deque()
        self.acquire = self._lock.acquire
        self.release = self._lock.release

    def __enter__(self):
        return self._lock.__enter__()

    def __exit__(self, *a):
        return self._lock.__exit__(*a)

    def wait(self, timeout=None):
        s = self._sim
        cur = s.cur() if s is not None else None
        if cur is None:
            return True
        lock = self._lock
        token = [cur, False]
        self._cwaiters.append(token)
        if isinstance(lock, RLock):
            st = lock._release_save()
        else:
            lock.release()
            st = None
        reason = s.block(cur, token, timeout, False, "Condition.wait")
        if not token[1]:
            try:
                self._cwaiters.remove(token)
            except ValueError:
                pass
        if st is not None:
            lock._acquire_restore(st, cur)
        else:
            lock.acquire()
        return token[1]

    def wait_for(self, predicate, timeout=None):
        s = self._sim
        endtime = None
        result = predicate()
        while not result:
            wt = None
            if timeout is not None:
                if endtime is None:
                    endtime = s.clock.now + timeout
                wt = endtime - s.clock.now
                if wt <= 0:
                    break
            self.wait(wt)
            result = predicate()
        return result

    def notify(self, n=1):
        s = self._sim
        cur = s.cur() if s is not None else None
        if cur is None:
            return
        while n > 0 and self._cwaiters:
            token = self._cwaiters.popleft()
            token[1] = True
            t = token[0]
            if t.state == _sim.BLOCKED and t.wait_obj is token:
                s._make_runnable(t, "notify")
            n -= 1

    def notify_all(self):
        self.notify(len(self._cwaiters))


class Event(_Prim):
    __slots__ = ("_flag",)

    def __init__(self):
        super().__init__()
        self._flag = False

    def is_set(self):
        s = self._sim
        cur = s.cur() if s is not None else None
        if cur is not None:
            s.yield_point(cur, "event")
        return self._flag

    isSet = is_set

    def set(self):
        s = self._sim
        cur = s.cur() if s is not None else None
        if cur is None:
            self._flag = True
            return
        s.yield_point(cur, "event")
        self._flag = True
        self._wake_all()

    def clear(self):
        s = self._sim
        cur = s.cur() if s is not None else None
        if cur is not None:
            s.yield_point(cur, "event")
        self._flag = False

    def wait(self, timeout=None):
        s = self._sim
        cur = s.cur() if s is not None else None
        if cur is None:
            return self._flag
        s.yield_point(cur, "event")
        if self._flag:
            return True
        if timeout is not None and timeout <= 0:
            return self._flag
        deadline = None if timeout is None else s.clock.now + timeout
        while not self._flag:
            rem = None
            if deadline is not None:
                rem = deadline - s.clock.now
                if rem <= 0:
                    break
            self._block(cur, rem, "Event.wait")
        return self._flag


class Semaphore(_Prim):
    __slots__ = ("_value",)

    def __init__(self, value=1):
        super().__init__()
        self._value = value

    def acquire(self, blocking=True, timeout=None):
        s = self._sim
        cur = s.cur() if s is not None else None
        if cur is None:
            if self._value > 0:
                self._value -= 1
                return True
            return False
        s.yield_point(cur, "sem")
        deadline = None if timeout is None else s.clock.now + timeout
        while self._value <= 0:
            if not blocking:
                return False
            rem = None
            if deadline is not None:
                rem = deadline - s.clock.now
                if rem <= 0:
                    return False
            self._block(cur, rem, "Semaphore.acquire")
        self._value -= 1
        return True

    def release(self, n=1):
        s = self._sim
        cur = s.cur() if s is not None else None
        self._value += n
        if cur is not None:
            self._wake_all()

    __enter__ = acquire

    def __exit__(self, *a):
        self.release()


BoundedSemaphore = Semaphore


class Thread:
    """threading.Thread look-alike; hashes by creation order for deterministic sets."""

    _counter = 0

    def __init__(self, group=None, target=None, name=None, args=(), kwargs=None, *, daemon=None):
        s = _cur_sim()
        self._sim = s
        self._target = target
        self._args = args
        self._kwargs = kwargs or {}
        self.daemon = bool(daemon)
        self._t = s.spawn(name or "Thread", self._run, daemon=self.daemon)
        self.name = name or f"Thread-{self._t.idx}"
        self._t.name = self.name
        self.ident = None

    def __hash__(self):
        return self._t.idx

    def __eq__(self, other):
        return self is other

    def _run(self):
        try:
            if self._target is not None:
                self._target(*self._args, **self._kwargs)
        finally:
            self._target = self._args = self._kwargs = None

    def run(self):
        self._run()

    def start(self):
        s = self._sim
        cur = s.cur()
        self.ident = self._t.idx + 1
        s.start_thread(self._t)
        if cur is not None:
            s.yield_point(cur, "thread-start")

    def is_alive(self):
        return self._t.started and self._t.state != _sim.DONE

    def join(self, timeout=None):
        s = self._sim
        cur = s.cur()
        if cur is None:
            return
        s.yield_point(cur, "join")
        t = self._t
        if t.state == _sim.DONE or not t.started:
            return
        if timeout is not None and timeout <= 0:
            return
        t.joiners.append(cur)
        reason = s.block(cur, t, timeout, False, f"join({t.name})")
        if reason == "timeout":
            try:
                t.joiners.remove(cur)
            except ValueError:
                pass


def current_thread():
    return _sim.current_thread()


def get_ident():
    t = _sim.current_thread()
    return (t.idx + 1) if t is not None else 0


def _register_atexit(func, *a, **k):
    return None


def active_count():
    s = _sim.CURRENT
    return 0 if s is None else sum(1 for t in s.threads if t.state not in (_sim.DONE, _sim.NEW))
