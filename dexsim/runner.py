"""Batch runner: seeded search over programs, schedules and fault plans on a fork pool;
classification against known findings; replay files; evidence. See DESIGN.md 5-7."""

from __future__ import annotations

import faulthandler
import hashlib
import json
import multiprocessing
import os
import random
import subprocess
import sys
import time
import traceback
from concurrent.futures import ProcessPoolExecutor, as_completed

from dexsim import gen, oracles

ROOT = os.path.dirname(os.path.dirname(os.path.abspath(__file__)))
OUT = os.environ.get("DEXSIM_OUT_DIR") or os.path.join(ROOT, "out")
REPLAYS = os.path.join(OUT, "replays")
EVIDENCE = os.environ.get("DEXSIM_EVIDENCE_DIR") or os.path.join(ROOT, "evidence")
KNOWN = os.path.join(ROOT, "known_findings.json")

REAL_VS_STUB = {
    "real": ["aws_durable_execution_sdk_python (whole package, imported from the working tree)",
             "CPython 3.12 concurrent.futures Future/ThreadPoolExecutor logic (source clone on simulated primitives)",
             "json, hashlib, logging, botocore ClientError"],
    "simulated": ["threading/queue primitives and thread scheduling", "wall clock (time.time, datetime.now)",
                  "random (retry jitter)", "boto3 Lambda client + durable backend (reference model)",
                  "Lambda runtime (invoke, retry, crash)", "external parties completing callbacks / chained invokes"],
}


def H(*parts):
    h = hashlib.blake2b("|".join(str(p) for p in parts).encode(), digest_size=8).digest()
    return int.from_bytes(h, "big") >> 1


def load_known():
    try:
        with open(KNOWN) as f:
            return json.load(f)["findings"]
    except FileNotFoundError:
        return []


def match_known(v, known):
    for k in known:
        if k.get("status") != "known":
            continue
        if k["property"] != v["prop"] or k["cls"] != v["cls"]:
            continue
        where = k.get("where") or {}
        if all(str(v.get(key)) == str(val) for key, val in where.items()):
            return k
    return None


# ------------------------------------------------------------------ one case
def golden_stats(w):
    return {"api": w.api_calls, "fn": w.fn_entries, "steps": [i["steps"] for i in w.invocations],
            "inv": len(w.invocations)}


def gen_fault_plan(rng, st, prof):
    kinds = prof.get("fault_kinds", ["crash-api", "crash-api", "crash-fn", "crash-fn", "crash-step", "crash-step", "spurious", "spurious",
                                     "apierr-retry", "apierr-retry", "slow-call"])
    n = rng.choice(prof.get("faults_per_plan", [1, 1, 1, 2, 3]))
    plan = []
    for _ in range(n):
        k = rng.choice(kinds)
        if k == "crash-api" and st["api"]:
            plan.append({"kind": "crash", "at": "api", "call": rng.randrange(1, st["api"] + 1),
                         "phase": rng.choice(["before", "after", "after"])})
        elif k == "crash-fn" and st["fn"]:
            plan.append({"kind": "crash", "at": "fn", "n": rng.randrange(1, st["fn"] + 1),
                         "phase": rng.choice(["entry", "inside", "exit"])})
        elif k == "crash-step" and st["steps"]:
            i = rng.randrange(len(st["steps"]))
            plan.append({"kind": "crash", "at": "step", "inv": i + 1, "n": rng.randrange(1, max(2, st["steps"][i]))})
        elif k == "clock-jump" and st["steps"]:
            i = rng.randrange(len(st["steps"]))
            plan.append({"kind": "clock-jump", "inv": i + 1, "n": rng.randrange(1, max(2, st["steps"][i])),
                         "delta": rng.choice([-30.0, -2.0, -0.5, 0.5, 2.0, 30.0, 4000.0])})
        elif k == "spurious" and st["inv"] > 1:
            plan.append({"kind": "spurious", "after_inv": rng.randrange(1, st["inv"])})
        elif k == "apierr-retry" and st["api"]:
            # a failing API call (checkpoint or history page) of a class that makes the wrapper raise: Lambda retries the
            # invocation, the execution goes on - one more way, besides crashes, in which an invocation ends half-way
            plan.append({"kind": "apierr", "call": rng.randrange(1, st["api"] + 1), "err": rng.choice(["400", "403", "404"]),
                         "applied": rng.random() < 0.3})
        elif k == "slow-call" and st["api"]:
            # one API call stays in flight for a long time (the client retrying read timeouts) before it is answered
            plan.append({"kind": "slow", "call": rng.randrange(1, st["api"] + 1), "s": rng.choice([20.0, 61.0, 90.0, 400.0])})
        elif k == "apierr" and st["api"]:
            plan.append({"kind": "apierr", "call": rng.randrange(1, st["api"] + 1),
                         "err": rng.choice(prof.get("err_classes", ["500", "503", "429", "400", "400tok", "403", "404", "conn"])),
                         "applied": rng.random() < 0.3})
    return plan


def signature(cfg, w):
    parts = [json.dumps(cfg["program"], sort_keys=True), json.dumps(cfg.get("faults", []), sort_keys=True)]
    for i in w.invocations:
        parts.append(i["outcome"])
        parts.append(",".join(sorted(f"{n}={s}" for n, s in i["hist_names"].items())))
        parts.append(str(i["switches"]))
    return hashlib.blake2b("|".join(parts).encode(), digest_size=8).hexdigest()


def run_cfg(check, cfg, golden=None):
    """Run one execution and evaluate the check's oracle. Returns (world, ix, violations)."""
    from dexsim.driver import run_execution

    if golden is None and getattr(check, "needs_golden", False) and cfg.get("faults"):
        # replay / minimisation: run the fault-free execution first, in the same process, exactly as the batch does
        g = dict(cfg)
        g["faults"] = []
        g.pop("choices", None)
        wg = run_execution(g)
        golden = {"final": oracles.final_outcome(wg), "stats": golden_stats(wg)}
        golden.update(check.golden_info(wg, oracles.Index(wg)))
    if _IN_WORKER:
        faulthandler.dump_traceback_later(WATCHDOG_S, exit=True)  # re-armed for every execution
    w = run_execution(cfg)
    for i in w.invocations:
        if str(i["outcome"]).startswith("harness"):
            raise RuntimeError(f"harness outcome {i['outcome']} in invocation {i['n']}")
    ix = oracles.Index(w)
    vs = check.oracle(ix, cfg, golden)
    return w, ix, vs


def attach_choices(cfg, w):
    c = dict(cfg)
    c["choices"] = {str(i["n"]): i["choices"] for i in w.invocations}
    return c


def _clear_sdk_caches():
    """Cases must not see each other through process-global state of the SDK (a functools cache added to it, say): what a
    case observes may depend on the executions of THIS case only - they are what a replay file's prelude re-runs."""
    import inspect

    for name, mod in list(sys.modules.items()):
        if not name.startswith("aws_durable_execution_sdk_python"):
            continue
        objs = list(vars(mod).values())
        for o in list(objs):
            if inspect.isclass(o) and getattr(o, "__module__", "") == name:
                objs.extend(vars(o).values())
        for o in objs:
            cc = getattr(o, "cache_clear", None)
            if callable(cc):
                try:
                    cc()
                except Exception:  # noqa: BLE001
                    pass


def run_case(check_id, seed_i, tier):
    from dexsim import checks

    _clear_sdk_caches()
    check = checks.CHECKS[check_id]
    if check.component:
        return check.component(seed_i, tier)
    prof = check.profile(tier)
    res = {"seed": seed_i, "evals": 0, "sigs": [], "fired": {}, "reach": {}, "violations": [], "steps": 0,
           "switches": 0, "vtime": 0.0, "invocations": 0, "threads": 0, "line_events": 0, "sample": None,
           "outcomes": {}}
    cfg = check.make_cfg(seed_i, prof)
    history = []
    w, ix, vs = run_cfg(check, cfg, None)
    _account(res, check, cfg, w, ix, vs, history)
    history.append(strip_private(attach_choices(cfg, w)))
    st = golden_stats(w)
    golden_final = oracles.final_outcome(w)
    ginfo = check.golden_info(w, ix)
    plans = check.fault_plans(random.Random(H(seed_i, "faults")), st, prof, tier, cfg, w)
    for j, plan in enumerate(plans):
        c2 = dict(cfg)
        c2["faults"] = plan
        c2["sched"] = dict(cfg["sched"], seed=(cfg["sched"].get("seed", 0) + 7 * (j + 1)) & 0x3FFFFFFF)
        g2 = {"final": golden_final, "stats": st}
        g2.update(ginfo)
        w2, ix2, vs2 = run_cfg(check, c2, g2)
        _account(res, check, c2, w2, ix2, vs2, history)
        if len(history) < 24:
            history.append(strip_private(attach_choices(c2, w2)))
    return res


def _account(res, check, cfg, w, ix, vs, history=()):
    res["evals"] += 1
    nt = bool(check.nontrivial(w, ix, cfg))
    res["sigs"].append((signature(cfg, w), nt))
    for k, v in w.fired.items():
        res["fired"][k] = res["fired"].get(k, 0) + v
    stalls = sum(1 for i in w.invocations for k in i["choices"] if str(k).startswith("y"))
    preempt = sum(1 for i in w.invocations for k in i["choices"] if not str(k).startswith("y"))
    for name, n in (("stall", stalls), ("preemption", preempt), ("api-latency>=0.3s-run", int((cfg.get("latency") or [0, 0])[1] >= 0.3)),
                    ("clock-skew-run", int(bool(cfg.get("skew")))), ("drain-after-return-run", int(bool(cfg.get("drain")))),
                    ("scaled-size-limits-run", int(bool(cfg.get("limits")))), ("line-preemption-run", int(bool((cfg.get("sched") or {}).get("lines")))),
                    ("tiny-batch-limits-run", int(bool(cfg.get("batch")))),
                    ("custom-serdes-run", int('"fserdes"' in json.dumps(cfg["program"]) or '_serdes"' in json.dumps(cfg["program"])))):
        if n:
            res["fired"][name] = res["fired"].get(name, 0) + n
    for k, v in w.reach.items():
        res["reach"][k] = res["reach"].get(k, 0) + v
    for k, v in check.reach(w, ix, cfg).items():
        res["reach"][k] = res["reach"].get(k, 0) + v
    for i in w.invocations:
        res["steps"] += i["steps"]
        res["switches"] += i["switches"]
        res["threads"] += i["threads"]
        res["line_events"] += i["line_events"]
        res["outcomes"][i["outcome"]] = res["outcomes"].get(i["outcome"], 0) + 1
    res["invocations"] += len(w.invocations)
    res["vtime"] += w.clock.now - w.t0
    if res["sample"] is None or (nt and not res["sample"].get("nontrivial")):
        res["sample"] = {"nontrivial": nt, "program": cfg["program"], "faults": cfg.get("faults", []),
                         "knobs": {k: cfg[k] for k in ("batch", "latency", "first_page", "resp_page", "drain", "skew") if k in cfg},
                         "sched": cfg.get("sched"), "outcomes": [i["outcome"] for i in w.invocations],
                         "final": (w.final or {}).get("status")}
    for v in vs:
        res["violations"].append({"v": v, "cfg": attach_choices(cfg, w), "prelude": list(history)})


#: wall-clock limit for ONE simulated execution inside a pool worker. Executions are bounded by step and virtual-time
#: budgets, so this only fires if the simulator itself wedges; the worker then dies and the parent re-runs its case.
WATCHDOG_S = 600
_IN_WORKER = False


def _selftest_die(seed_i):
    """Self-test of the runner's recovery from dead workers (off unless DEXSIM_SELFTEST_DIE is set): 'once:<k>' kills the
    worker the first time it gets a case whose seed is divisible by k, 'always:<k>' every time."""
    spec = os.environ.get("DEXSIM_SELFTEST_DIE")
    if not spec:
        return
    mode, k = spec.split(":")
    if seed_i % int(k):
        return
    marker = os.path.join(OUT, f".died-{seed_i}")
    if mode == "once" and os.path.exists(marker):
        return
    os.makedirs(OUT, exist_ok=True)
    open(marker, "w").close()
    os.kill(os.getpid(), 11)


def _worker(args):
    global _IN_WORKER
    check_id, seed_i, tier = args
    _IN_WORKER = True
    faulthandler.dump_traceback_later(WATCHDOG_S, exit=True)
    _selftest_die(seed_i)
    try:
        return ("ok", run_case(check_id, seed_i, tier))
    except BaseException:  # noqa: BLE001
        return ("err", {"seed": seed_i, "tb": traceback.format_exc()})
    finally:
        faulthandler.cancel_dump_traceback_later()


# --------------------------------------------------------------- replay file
def strip_private(cfg):
    c = json.loads(json.dumps(cfg, default=str))
    for f in c.get("faults", []):
        f.pop("_done", None)
    return c


def replay_cfg(check_id, cfg, prelude=None):
    """Re-run a cfg (explicit choices if present) and return violations of the check.

    `prelude` is the list of executions that ran earlier in the same process when the violation was found;
    it matters only if the code under test keeps process-global state (a module-level cache, say)."""
    from dexsim import checks

    check = checks.CHECKS[check_id]
    if check.component:
        return check.component_replay(cfg)
    _clear_sdk_caches()
    if prelude:
        from dexsim.driver import run_execution
        for pc in prelude:
            run_execution(strip_private(pc))
    golden = cfg.get("_golden")
    w, ix, vs = run_cfg(check, strip_private(cfg), golden)
    return vs


def same_violation(vs, want):
    for v in vs:
        if v["prop"] == want["prop"] and v["cls"] == want["cls"]:
            return v
    return None


def minimise(check_id, cfg, want, budget=120, deadline=None):
    """Greedy structural shrinking: faults, statements, schedule choices, knobs."""
    from dexsim import checks

    check = checks.CHECKS[check_id]
    if check.component:
        return check.component_minimise(cfg, want, budget)
    best = strip_private(cfg)
    tries = 0

    def ok(c):
        nonlocal tries
        if tries >= budget or (deadline and time.time() > deadline):
            return False
        tries += 1
        try:
            return same_violation(replay_cfg(check_id, c), want) is not None
        except Exception:  # noqa: BLE001
            return False

    # 0. schedule: all-default
    for variant in ("drop-choices",):
        c = dict(best)
        c["choices"] = {}
        if ok(c):
            best = c
    # 1. faults
    changed = True
    while changed:
        changed = False
        for i in range(len(best.get("faults", []))):
            c = dict(best)
            c["faults"] = best["faults"][:i] + best["faults"][i + 1:]
            if ok(c):
                best = c
                changed = True
                break
    # 2. statements
    def paths(body, prefix=()):
        for n, st in enumerate(body):
            yield prefix + (n,)
            for key in ("body", "between", "handler"):
                if key in st and isinstance(st[key], list) and st["op"] not in ("map",):
                    yield from paths(st[key], prefix + (n, key))
            if st["op"] == "try":
                pass
            if st["op"] == "parallel":
                for b, br in enumerate(st["branches"]):
                    yield from paths(br["body"], prefix + (n, "branches", b, "body"))

    def delete(prog, path):
        p = json.loads(json.dumps(prog))
        cur = p["body"]
        for x in path[:-1]:
            cur = cur[x]
        if len(cur) <= 1 and len(path) > 1:
            return None
        del cur[path[-1]]
        return p

    changed = True
    while changed and tries < budget:
        changed = False
        for path in sorted(paths(best["program"]["body"]), key=lambda p: (-len(p), p), reverse=False):
            p2 = delete(best["program"], path)
            if p2 is None or not p2["body"]:
                continue
            c = dict(best)
            c["program"] = p2
            c["choices"] = {}
            if ok(c):
                best = c
                changed = True
                break
    # 3. knobs to defaults
    for key in ("batch", "first_page", "state_page", "resp_page", "drain", "skew", "limits"):
        if key in best:
            c = dict(best)
            del c[key]
            if ok(c):
                best = c
    if best.get("sched", {}).get("policy") not in (None, "default") and not best.get("choices"):
        c = dict(best)
        c["sched"] = {"policy": "default"}
        if ok(c):
            best = c
    # 4. make the schedule explicit again for the final file
    return best, tries


def write_replay(check_id, seed_i, cfg, v, prelude=None):
    os.makedirs(REPLAYS, exist_ok=True)
    path = os.path.join(REPLAYS, f"{check_id}-{seed_i}-{v['cls'].replace(':', '_')}.json")
    doc = {"property": check_id, "seed": seed_i, "violation": {"prop": v["prop"], "cls": v["cls"], "msg": v["msg"]},
           "cfg": strip_private(cfg)}
    if prelude:
        doc["prelude"] = prelude
        doc["note"] = ("not minimised: the violation depends on state the code under test keeps in the process between executions; "
                       "the prelude executions are re-run first, in the same process")
    with open(path, "w") as f:
        json.dump(doc, f, indent=1, default=str)
    return path


def confirm_replay(path, timeout=240):
    """Re-execute the replay file in a fresh interpreter; True if it prints the same violation."""
    env = dict(os.environ)
    env["PYTHONHASHSEED"] = "0"
    p = subprocess.run([sys.executable, "-m", "dexsim", "replay", path], cwd=ROOT, env=env, capture_output=True,
                       text=True, timeout=timeout)
    return p.returncode == 1 and "VIOLATION" in p.stdout, p.stdout + p.stderr


# ------------------------------------------------------------------- batch
def run_check(check_id, tier, seed, workers=None, max_wall=None, n_cases=None, verbose=True):
    from dexsim import checks

    check = checks.CHECKS[check_id]
    t0 = time.time()
    n_cases = n_cases or check.cases(tier)
    max_wall = max_wall or check.wall(tier)
    workers = workers or int(os.environ.get("DEXSIM_WORKERS", "0")) or min(16, os.cpu_count() or 4)
    seeds = [H(seed, check_id, i) for i in range(n_cases)]
    agg = {"evals": 0, "sigs": set(), "nt_sigs": set(), "fired": {}, "reach": {}, "steps": 0, "switches": 0,
           "vtime": 0.0, "invocations": 0, "threads": 0, "line_events": 0, "outcomes": {}, "cases": 0}
    samples = []
    raw_violations = []
    cls_counts = {}
    known_seen = {}
    unknown_seen = {}
    unknown_total = 0
    known_now = [k for k in load_known() if k["property"] == check_id]
    errors = []
    truncated = False
    ctx = multiprocessing.get_context("fork")
    notes = []          # worker deaths that a re-run recovered from (evidence only)
    attempts = {}       # case seed -> submissions so far
    todo = list(reversed(seeds))
    alone = []          # cases that were pending at two pool breaks: re-run one at a time

    def absorb(r):
        nonlocal unknown_total
        agg["cases"] += 1
        for k in ("evals", "steps", "switches", "invocations", "threads", "line_events"):
            agg[k] += r[k]
        agg["vtime"] += r["vtime"]
        for sig, nt in r["sigs"]:
            agg["sigs"].add(sig)
            if nt:
                agg["nt_sigs"].add(sig)
        for d in ("fired", "reach", "outcomes"):
            for k, v in r[d].items():
                agg[d][k] = agg[d].get(k, 0) + v
        if r["sample"] and len(samples) < 3 and (r["sample"].get("nontrivial") or not samples):
            samples.append(r["sample"])
        for v in r["violations"]:
            v["seed"] = r["seed"]
            key = (v["v"]["prop"], v["v"]["cls"])
            cls_counts[key] = cls_counts.get(key, 0) + 1
            if match_known(v["v"], known_now) is not None:
                known_seen[key] = known_seen.get(key, 0) + 1
                if known_seen[key] > 25:
                    v["cfg"] = None  # keep the count, drop the bulky config
            else:
                unknown_total += 1
                unknown_seen[key] = unknown_seen.get(key, 0) + 1
                if unknown_seen[key] > 40:
                    v["cfg"] = None
            raw_violations.append(v)

    def stop_now():
        return time.time() - t0 > max_wall or unknown_total > 400

    def run_pool(n_workers, source, on_break):
        """Run cases from `source` (a list used as a stack) until it is empty, the budget is spent or the pool breaks
        (a worker died: segfault of the interpreter, watchdog). Returns 'done' | 'stop' | 'broken'."""
        pool = ProcessPoolExecutor(max_workers=n_workers, mp_context=ctx)
        futs = {}
        pending = set()
        completed = set()
        state = "done"
        try:
            while True:
                while source and len(pending) < n_workers * 2:
                    sd = source.pop()
                    attempts[sd] = attempts.get(sd, 0) + 1
                    f = pool.submit(_worker, (check_id, sd, tier))
                    futs[f] = sd
                    pending.add(f)
                if not pending:
                    break
                done = next(as_completed(pending, timeout=WATCHDOG_S + 120))
                pending.discard(done)
                kind, r = done.result()
                completed.add(done)
                if kind == "err":
                    errors.append(r)
                else:
                    absorb(r)
                if stop_now():
                    state = "stop"
                    break
        except Exception as e:  # noqa: BLE001 - BrokenProcessPool / TimeoutError: some worker died or wedged
            state = "broken"
            on_break(sorted({sd for f, sd in futs.items() if f not in completed}), repr(e)[:200])
        finally:
            for f in pending:
                f.cancel()
            procs = list((getattr(pool, "_processes", None) or {}).values())
            pool.shutdown(wait=False, cancel_futures=True)
            for pr in procs:  # in-flight cases of a stopped / broken pool are abandoned
                try:
                    pr.kill()
                except Exception:  # noqa: BLE001
                    pass
        return state

    def on_break_main(lost, why):
        notes.append(f"a pool worker died ({why}); {len(lost)} pending cases re-run")
        for sd in lost:
            (alone if attempts.get(sd, 0) >= 2 else todo).append(sd)

    state = "broken"
    breaks = 0
    while state == "broken" and breaks < 25:
        state = run_pool(workers, todo, on_break_main)
        breaks += state == "broken"
    truncated = state == "stop" or bool(todo)
    # cases that were in flight at two breaks: one at a time, each in its own process, so that a case that really kills
    # its worker is identified (and skipped with a note) instead of taking the others down again
    for sd in alone:
        if stop_now():
            truncated = True
            break
        died = []
        run_pool(1, [sd], lambda lost, why: died.append(why))
        if died:
            notes.append(f"case seed {sd} kills its worker when run alone ({died[0]}): skipped")
    agg["notes"] = notes
    return finish(check_id, check, tier, seed, t0, agg, samples, raw_violations, errors, truncated, n_cases, workers, verbose)


def finish(check_id, check, tier, seed, t0, agg, samples, raw_violations, errors, truncated, n_cases, workers, verbose):
    known = [k for k in load_known() if k["property"] == check_id]
    known_hits = {}
    unknown = {}
    for rv in raw_violations:
        v = rv["v"]
        k = match_known(v, known)
        if k is not None:
            known_hits.setdefault(k["id"], []).append(rv)
        else:
            unknown.setdefault((v["prop"], v["cls"]), []).append(rv)
    lines = []
    exit_code = 0
    reported = []
    harness_msgs = []
    for (prop, cls), rvs in sorted(unknown.items()):
        rvs_c = [r for r in rvs if r.get("cfg")]
        rv = min(rvs_c, key=lambda r: len(json.dumps(r["cfg"]["program"])) if "program" in r["cfg"] else 0)
        cfg = rv["cfg"]
        want = {"prop": prop, "cls": cls}
        try:
            cfg_min, tries = minimise(check_id, cfg, want, budget=check.min_budget(tier), deadline=time.time() + 90)
            vs = replay_cfg(check_id, cfg_min)
            hit = same_violation(vs, want)
            if hit is None:
                cfg_min = strip_private(cfg)
                hit = same_violation(replay_cfg(check_id, cfg_min), want)
            if hit is None and rv.get("prelude"):
                path = write_replay(check_id, rv["seed"], cfg, rv["v"], prelude=rv["prelude"])
                okc, outp = confirm_replay(path)
                if okc:
                    lines.append(f"VIOLATION property={check_id} replay={path}")
                    lines.append(f"  class={cls} seed={rv['seed']} occurrences={len(rvs)} minimise_replays=not-minimised(process-global state)")
                    lines.append(f"  {rv['v']['msg']}")
                    reported.append({"cls": cls, "replay": path, "msg": rv["v"]["msg"], "occurrences": len(rvs)})
                    exit_code = 1
                    continue
            if hit is None:
                harness_msgs.append(f"violation {prop}:{cls} (seed {rv['seed']}) did not reproduce in-process: {rv['v']['msg']}")
                continue
            path = write_replay(check_id, rv["seed"], cfg_min, hit)
            okc, outp = confirm_replay(path)
            if not okc and rv.get("prelude"):
                # process-global state in the code under test: replay the unminimised execution after its prelude
                path = write_replay(check_id, rv["seed"], cfg, rv["v"], prelude=rv["prelude"])
                okc, outp = confirm_replay(path)
                hit = rv["v"]
                tries = -1
            if not okc:
                harness_msgs.append(f"violation {prop}:{cls} did not replay in a fresh interpreter from {path}: {outp[-400:]}")
                continue
            lines.append(f"VIOLATION property={check_id} replay={path}")
            lines.append(f"  class={cls} seed={rv['seed']} occurrences={len(rvs)} minimise_replays={tries}")
            lines.append(f"  {hit['msg']}")
            reported.append({"cls": cls, "replay": path, "msg": hit["msg"], "occurrences": len(rvs)})
            exit_code = 1
        except Exception:  # noqa: BLE001
            harness_msgs.append(f"while minimising {prop}:{cls}: {traceback.format_exc()[-800:]}")
    for k in known:
        if k.get("status") == "known":
            n = len(known_hits.get(k["id"], []))
            lines.append(f"KNOWN-FINDING: property={check_id} {k['id']}: {k['what']} (observed {n} times in this run)")
    wall = time.time() - t0
    if errors or harness_msgs:
        exit_code = 2 if exit_code == 0 else exit_code
    # self-test: required reach probes
    missing = [p for p in check.required_reach(tier) if not agg["reach"].get(p) and not agg["fired"].get(p)]
    if missing and not truncated and exit_code == 0:
        harness_msgs.append(f"reach self-test failed: probes never hit: {missing}")
        exit_code = 2
    write_evidence(check_id, check, tier, seed, agg, samples, wall, reported, known_hits, truncated, n_cases, workers, errors, harness_msgs)
    if verbose:
        print(f"dexsim check {check_id} tier={tier} VERIF_SEED={seed} workers={workers}")
        print(f"  cases={agg['cases']}/{n_cases} executions={agg['evals']} invocations={agg['invocations']} steps={agg['steps']} "
              f"switches={agg['switches']} sim_seconds={agg['vtime']:.0f} wall={wall:.1f}s distinct_nontrivial={len(agg['nt_sigs'])}"
              + (" TRUNCATED" if truncated else ""))
        print(f"  outcomes={dict(sorted(agg['outcomes'].items()))}")
        print(f"  faults_fired={dict(sorted(agg['fired'].items()))}")
        print(f"  reach={dict(sorted(agg['reach'].items()))}")
        for ln in lines:
            print(ln)
        for e in errors[:3]:
            print(f"HARNESS-ERROR seed={e['seed']}\n{e['tb']}")
        for m in harness_msgs:
            print(f"HARNESS-ERROR {m}")
        for m in agg.get("notes", []):
            print(f"HARNESS-NOTE {m}")
        if exit_code == 0:
            print(f"OK property={check_id} held on everything explored")
    return exit_code


def write_evidence(check_id, check, tier, seed, agg, samples, wall, reported, known_hits, truncated, n_cases, workers, errors, harness_msgs):
    os.makedirs(EVIDENCE, exist_ok=True)
    per_hour = 3600.0 / wall if wall > 0 else 0
    ev = {
        "property_id": check_id, "tier": tier, "seed": int(seed), "level": check.level,
        "coverage": {
            "evaluations": int(agg["evals"]),
            "distinct_nontrivial": len(agg["nt_sigs"]),
            "distinct_signatures": len(agg["sigs"]),
            "rule": check.rule,
            "samples": samples or [{"note": "no sample recorded"}],
            "cases": agg["cases"], "cases_planned": n_cases, "truncated_by_wall_clock": truncated,
            "invocations": agg["invocations"], "simulated_threads": agg["threads"], "scheduling_steps": agg["steps"],
            "context_switches": agg["switches"], "line_preemption_events": agg["line_events"],
            "simulated_seconds": round(agg["vtime"], 1),
            "executions_per_hour": int(agg["evals"] * per_hour), "seeds_per_hour": int(agg["cases"] * per_hour),
            "workers": workers,
            "invocation_outcomes": agg["outcomes"],
            "faults_fired": agg["fired"], "reach_probes": agg["reach"],
            "components": REAL_VS_STUB,
            "violations_reported": reported,
            "known_findings_observed": {k: len(v) for k, v in known_hits.items()},
            "harness_errors": len(errors) + len(harness_msgs),
            "worker_deaths_recovered": agg.get("notes", []),
            "exhaustive": False,
        },
        "assumptions": check.assumptions,
        "wall_s": round(wall, 2),
        "violations": len(reported),
    }
    with open(os.path.join(EVIDENCE, f"{check_id}.json"), "w") as f:
        json.dump(ev, f, indent=1, default=str)
