"""Swarm-style generator of workflow programs, external scripts, knobs and fault plans.
See DESIGN.md sections 4 and 5."""

from __future__ import annotations

import json

DEFAULT_WEIGHTS = {"step": 6, "wait": 2, "callback": 1, "wfc": 1, "invoke": 1, "wfcond": 1,
                   "child": 2, "parallel": 2, "map": 1, "log": 1, "pause": 0}

USER_ERRS = ["ValueError", "RuntimeError", "UserErrA", "UserErrB", "TimeoutError"]
#: SDK exception classes that user code may raise itself (e.g. from a wait_for_condition check function)
SDK_ERRS = ["ExecutionError", "ValidationError", "InvalidStateError"]


def pick(rng, weighted):
    items = [(k, w) for k, w in weighted.items() if w > 0]
    tot = sum(w for _, w in items)
    x = rng.random() * tot
    for k, w in items:
        x -= w
        if x <= 0:
            return k
    return items[-1][0]


def gen_value(rng, depth=0, rich=True):
    kinds = ["int", "str", "bool", "none", "float"]
    if rich:
        kinds += ["bytes", "uuid", "dec", "dt", "date", "list", "tuple", "dict", "list", "dict"]
    k = rng.choice(kinds)
    if depth >= 2 and k in ("list", "tuple", "dict"):
        k = "int"
    if k == "int":
        return ["int", rng.choice([0, 1, -1, 7, 2**40, -(2**63), rng.randrange(-1000, 1000)])]
    if k == "str":
        return ["str", rng.choice(["", "a", "héllo", "x y", '{"t":"i","v":1}', "line\nbreak", "s%d" % rng.randrange(100)])]
    if k == "bool":
        return ["bool", rng.random() < 0.5]
    if k == "none":
        return ["none"]
    if k == "float":
        return ["float", rng.choice([0.0, 1.5, -2.25, 1e-9, 3.141592653589793, 1e300])]
    if k == "bytes":
        return ["bytes", rng.choice(["", "00ff", "cafebabe"])]
    if k == "uuid":
        return ["uuid", "12345678-1234-5678-1234-56781234567%d" % rng.randrange(10)]
    if k == "dec":
        return ["dec", rng.choice(["1.50", "0", "-3.14159", "1E+3"])]
    if k == "dt":
        return ["dt", rng.choice(["2024-01-02T03:04:05+00:00", "2024-06-30T23:59:59.123456+02:00", "2020-02-29T00:00:00"])]
    if k == "date":
        return ["date", rng.choice(["2024-01-02", "1999-12-31"])]
    n = rng.randrange(0, 4)
    if k == "list":
        return ["list", [gen_value(rng, depth + 1, rich) for _ in range(n)]]
    if k == "tuple":
        return ["tuple", [gen_value(rng, depth + 1, rich) for _ in range(n)]]
    return ["dict", {rng.choice(["a", "b", "t", "v", "k%d" % i]): gen_value(rng, depth + 1, rich) for i in range(n)}]


def gen_json_value(rng):
    return rng.choice([1, "ok", None, True, 2.5, [1, "a"], {"a": 1, "b": [1, 2]}, {"t": "x", "v": 2}, "", 0])


def gen_retry(rng, prof):
    r = rng.random()
    if r < 0.15:
        return None
    if r < 0.3:
        return {"kind": "preset", "name": rng.choice(["none", "default", "transient", "resource_availability", "critical"])}
    if r < 0.75:
        rs = {"kind": "cfg", "max_attempts": rng.choice([1, 2, 2, 3, 3, 4, 6]),
              "initial": rng.choice([1, 1, 2, 5, 30]), "max": rng.choice([1, 5, 60, 300]),
              "rate": rng.choice([1, 1.5, 2, 3]), "jitter": rng.choice(["NONE", "FULL", "HALF"])}
        if rng.random() < 0.25:
            rs["types"] = rng.sample(USER_ERRS, 2)
            if rng.random() < 0.2:
                rs["types"] = []  # an explicit empty filter: nothing is retryable
        elif rng.random() < 0.3:
            rs["errors"] = [rng.choice(["boom", "transient", "nomatch", "rate exceeded (429)", "[denied]", "a.b", "x+"])]
            if rng.random() < 0.2:
                rs["errors"] = []
        return rs
    n = rng.randrange(1, 4)
    decs = [{"retry": rng.choice([0, 0, 1, 2, 7])} for _ in range(n)] + [{"no": 1}]
    return {"kind": "script", "decisions": decs}


def gen_fn(rng, prof, allow_fail=True):
    blocks = prof.get("blocks", [0, 0, 0, 0.05, 0.5, 2.0])
    vspec = lambda: gen_value(rng, 0, prof.get("rich", True))  # noqa: E731
    r = rng.random()
    fail_p = prof.get("fail_p", 0.35) if allow_fail else 0.0
    att = []
    if r >= fail_p:
        att = [{"do": "ret", "v": vspec()}]
    else:
        mode = rng.choice(["k-then-ok", "k-then-ok", "always", "nonretry"])
        cls = rng.choice(USER_ERRS * 3 + ["TypeError"])
        msg = rng.choice(["boom", "transient glitch", "x", "rate exceeded (429)", "access [denied]", "axb", "xx", ""])
        if mode == "k-then-ok":
            k = rng.randrange(1, 4)
            att = [{"do": "raise", "cls": cls, "msg": msg} for _ in range(k)] + [{"do": "ret", "v": vspec()}]
        elif mode == "always":
            att = [{"do": "raise", "cls": cls, "msg": msg}]
        else:
            att = [{"do": "raise", "cls": "UserErrB", "msg": "nomatch-fatal"}]
    for a in att:
        b = rng.choice(blocks)
        if b:
            a["block"] = b
    fn = {"attempts": att}
    if rng.random() < prof.get("fnlog_p", 0.2):
        fn["log"] = True
    return fn


def fn_may_fail(fn):
    return any(a["do"] == "raise" for a in fn.get("attempts", []))


class Gen:
    def __init__(self, rng, prof):
        self.rng = rng
        self.prof = prof
        self.budget = prof.get("max_ops", 18)
        self.w = dict(DEFAULT_WEIGHTS)
        self.w.update(prof.get("weights", {}))
        # swarm: drop a random subset of statement kinds for this program
        if prof.get("swarm", True):
            for k in list(self.w):
                if k != "step" and rng.random() < 0.35:
                    self.w[k] = 0
        self.externals = {}
        self.has_branch_invoke = False

    def wrap_try(self, st, p=0.7):
        if self.rng.random() < p:
            return {"op": "try", "stmt": st,
                    "catch": ["CallableRuntimeError", "CallbackError"] + USER_ERRS,
                    "handler": [self.step(allow_fail=False)] if self.rng.random() < 0.3 and self.budget > 0 else []}
        return st

    def step(self, allow_fail=True, in_branch=False):
        rng, prof = self.rng, self.prof
        self.budget -= 1
        st = {"op": "step", "fn": gen_fn(rng, prof, allow_fail)}
        if rng.random() < prof.get("amo_p", 0.0):
            st["sem"] = "amo"
        if fn_may_fail(st["fn"]) or rng.random() < 0.3:
            st["retry"] = gen_retry(rng, prof)
        self.custom_serdes(st)
        if rng.random() < 0.1:
            st["deco"] = True  # @durable_step: named after the decorated function
        return st

    def custom_serdes(self, st):
        """A well-behaved user-supplied SerDes (type-preserving, own prefix): results must survive it on every replay."""
        if self.rng.random() < self.prof.get("serdes_p", 0.1):
            st["fserdes"] = {"tag": self.rng.choice(["A", "C", "K"])}

    def ext(self, kind):
        rng = self.rng
        o = pick(rng, self.prof.get("ext_outcomes", {"succeed": 60, "fail": 15, "cancel": 5, "stop": 5, "timeout": 8}))
        sc = {"outcome": o, "delay": rng.choice(self.prof.get("ext_delays", [0, 0.05, 0.5, 2, 10, 100]))}
        if kind == "invoke":
            if rng.random() < 0.3:
                sc["pending_for"] = rng.choice([0.3, 3, 30, 300])  # reported PENDING before it is reported STARTED
            if o == "cancel":
                sc["outcome"] = "stop"
            sc["payload"] = json.dumps(gen_json_value(rng))
            r_ = rng.random()
            if r_ < 0.2:
                sc["payload"] = None
            elif r_ < 0.35:
                # results come in all sizes: a document of 1 KB .. 70 KB that parses to a container
                pad = "p" * rng.choice([1100, 5000, 70_000])
                sc["payload"] = json.dumps(rng.choice([{"k": [1, 2], "pad": pad}, [pad, {"n": 1}]]))
        else:
            sc["payload"] = rng.choice(['"s"', "plain text", "{\"a\": 1}", "", "42", None])
        if o != "succeed":
            sc["message"] = rng.choice(["ext failed", "denied", ""])
            sc["etype"] = rng.choice(["ExtErr", "Timeout"])
            if rng.random() < 0.15:
                sc["no_error"] = True
        return sc

    def stmt(self, depth, in_branch):
        rng, prof = self.rng, self.prof
        w = dict(self.w)
        if depth >= prof.get("max_depth", 3) or self.budget < 3:
            for k in ("child", "parallel", "map"):
                w[k] = 0
        k = pick(rng, w)
        if k == "step":
            st = self.step(in_branch=in_branch)
            if fn_may_fail(st["fn"]):
                st = self.wrap_try(st, prof.get("try_p", 0.75))
            return st
        self.budget -= 1
        if k == "wait":
            return {"op": "wait", "s": rng.choice([1, 1, 2, 5, 60, 3600] * 4 + [40_000_000])}  # 40e6 s: more than a year
        if k == "log":
            self.budget += 1
            return {"op": "log"}
        if k == "pause":
            self.budget += 1
            return {"op": "pause", "s": rng.choice([0.05, 0.5, 2.0, 5.0])}
        if k == "callback":
            st = {"op": "callback", "between": []}
            if rng.random() < 0.5:
                st["between"] = [self.step(allow_fail=False) for _ in range(rng.randrange(1, 3))]
                if self.w.get("log", 0) > 0 and rng.random() < 0.6:
                    st["between"].insert(rng.randrange(len(st["between"]) + 1), {"op": "log"})
                    st["between"].append({"op": "log"})
            sc = self.ext("callback")
            if sc["outcome"] == "timeout":
                st["cfg"] = {"timeout": rng.choice([1, 3, 30])}
                sc["outcome"] = "never"
            elif rng.random() < 0.2:
                # the external party answers: the timeout is far away, so that crashes and latency never decide the race
                st["cfg"] = {"timeout": rng.choice([900, 7200])}
            st["_ext"] = sc
            return self.wrap_try(st, 0.8)
        if k == "wfc":
            st = {"op": "wfc", "fn": gen_fn(rng, prof, allow_fail=rng.random() < 0.3)}
            if fn_may_fail(st["fn"]):
                st["retry"] = gen_retry(rng, prof)
            sc = self.ext("callback")
            sc["on_submit"] = True
            if sc["outcome"] == "timeout":
                st["cfg"] = {"timeout": rng.choice([2, 5, 30])}
                sc["outcome"] = "never"
            elif rng.random() < 0.2:
                st["cfg"] = {"timeout": rng.choice([900, 7200])}
            st["_ext"] = sc
            return self.wrap_try(st, 0.8)
        if k == "invoke":
            st = {"op": "invoke", "target": rng.choice(["fn-a", "fn-b:live"]),
                  "payload": gen_value(rng, 1, False) if rng.random() < 0.8 else ["dict", {"a": ["int", 1]}]}
            if rng.random() < 0.3:
                st["serdes"] = rng.choice(["payload", "result", "both"])
            if in_branch:
                st["timeout"] = rng.choice([1, 5, 60])
            elif rng.random() < 0.3:
                st["timeout"] = rng.choice([0, 1, 30])
            sc = self.ext("invoke")
            if sc["outcome"] == "never":
                sc["outcome"] = "timeout"
            if st.get("serdes") in ("result", "both") and sc.get("payload") is not None:
                sc["payload"] = "X" + sc["payload"]  # the invoked function answers in the caller's result encoding
            st["_ext"] = sc
            return self.wrap_try(st, 0.8)
        if k == "wfcond":
            n = rng.randrange(1, 5)
            states = [gen_value(rng, 1, prof.get("rich", True)) for _ in range(n)]
            if n >= 2 and rng.random() < 0.3:
                # "poll a job until it is done": the same state (and the same delay) several polls in a row
                i0 = rng.randrange(n - 1)
                for i_ in range(i0 + 1, n - 1 if rng.random() < 0.5 else i0 + 2):
                    states[i_] = states[i0]
            att = [{"do": "ret", "v": s} for s in states]
            sdk_cls = None
            if rng.random() < prof.get("check_fail_p", 0.15):
                att[rng.randrange(n)] = {"do": "raise", "cls": rng.choice(USER_ERRS), "msg": "check failed"}
                if rng.random() < 0.3:
                    sdk_cls = rng.choice(SDK_ERRS)  # "all exception classes": the check raises one of the SDK's own
                    for a_ in att:
                        if a_["do"] == "raise":
                            a_["cls"] = sdk_cls
            for a in att:
                b = rng.choice(prof.get("blocks", [0, 0, 0, 0.05, 0.5, 2.0]))
                if b:
                    a["block"] = b  # a check that takes time: its START travels alone, a crash can leave the poll STARTED
            strat = [{"cont": rng.choice([0, 1, 1, 3, 30])} for _ in range(n - 1)] + [{"stop": 1}]
            if n >= 3 and rng.random() < 0.4:
                d_ = rng.choice([1, 2])
                strat = [{"cont": d_} for _ in range(n - 1)] + [{"stop": 1}]
            st = {"op": "wfcond", "check": {"attempts": att}, "strategy": strat,
                  "initial": gen_value(rng, 1, prof.get("rich", True))}
            self.custom_serdes(st)
            if rng.random() < 0.3:
                st["ctor"] = True  # decisions built with the dataclass constructor instead of the factory methods
            if sdk_cls is not None:
                t_ = self.wrap_try(st, 0.9)
                if t_ is not st:
                    t_["catch"] = t_["catch"] + [sdk_cls]
                return t_
            return self.wrap_try(st, 0.8)
        if k == "child":
            st = {"op": "child", "body": self.seq(depth + 1, in_branch, lo=1, hi=3)}
            if rng.random() < 0.3:
                st["ret"] = gen_value(rng, 0, prof.get("rich", True))
            self.custom_serdes(st)
            if rng.random() < 0.2:
                st["setlog"] = True  # the body installs a user-supplied logger on its own context
            if rng.random() < 0.15:
                st["deco"] = True  # @durable_with_child_context
            return self.wrap_try(st, 0.4)
        if k in ("parallel", "map"):
            nb = rng.choice(prof.get("branch_counts", [1, 2, 2, 3, 3, 4]))
            cfg = None
            if rng.random() < prof.get("cfg_p", 0.6):
                cfg = {}
                if rng.random() < 0.4:
                    cfg["conc"] = rng.choice([1, 2, nb])
                if prof.get("early_exit", True):
                    if rng.random() < 0.35:
                        cfg["min"] = rng.randrange(1, nb + 1)
                    if rng.random() < 0.35:
                        cfg["tol"] = rng.choice([0, 1, nb])
                    if rng.random() < 0.2:
                        cfg["pct"] = rng.choice([0, 14, 20, 25, 33, 34, 50, 66, 100])
                    if rng.random() < 0.2:
                        # the packaged factory methods instead of explicit numbers
                        for k_ in ("min", "tol", "pct"):
                            cfg.pop(k_, None)
                        cfg["preset"] = rng.choice(["first_successful", "all_completed", "all_successful"])
                        if cfg["preset"] == "first_successful":
                            cfg["min"] = 1
                        elif cfg["preset"] == "all_successful":
                            cfg["tol"], cfg["pct"] = 0, 0
                else:
                    cfg["tol"] = nb  # never exceeded: result independent of completion order
            branches = []
            for _ in range(nb):
                b = {"body": self.seq(depth + 1, True, lo=1, hi=3)}
                if rng.random() < 0.3:
                    b["ret"] = gen_value(rng, 0, prof.get("rich", True))
                elif b["body"][-1]["op"] in ("parallel", "map") and rng.random() < 0.6:
                    b["ret"] = ["last"]  # the branch returns the nested BatchResult itself
                branches.append(b)
            if k == "parallel":
                st = {"op": "parallel", "branches": branches}
                if nb >= 2 and rng.random() < 0.15:
                    # two positions with the same specification, given as callables that compare equal
                    i, j = rng.sample(range(nb), 2)
                    branches[j] = json.loads(json.dumps(branches[i]))
                    st["eqfn"] = True
                for b in branches:
                    if rng.random() < 0.1:
                        b["setlog"] = True
            else:
                st = {"op": "map", "items": [gen_value(rng, 1, False) for _ in range(nb)],
                      "bodies": [b["body"] for b in branches], "rets": [b.get("ret") for b in branches]}
            if cfg is not None:
                st["cfg"] = cfg
            elif not prof.get("early_exit", True):
                st["cfg"] = {"tol": nb}
            if "cfg" in st and rng.random() < prof.get("serdes_p", 0.1) * 2:
                # custom SerDes for the batch result, for the items, or both (each with its own prefix)
                which = rng.choice(["serdes", "item_serdes", "both"])
                if which in ("serdes", "both"):
                    st["cfg"]["serdes"] = "B"
                if which in ("item_serdes", "both"):
                    st["cfg"]["item_serdes"] = "I"
            return st
        raise AssertionError(k)

    def seq(self, depth, in_branch, lo=2, hi=7):
        n = self.rng.randrange(lo, hi + 1)
        out = []
        for _ in range(n):
            if self.budget <= 0:
                break
            out.append(self.stmt(depth, in_branch))
        if not out:
            out.append(self.step(allow_fail=False))
        return out


def assign_externals(body, prefix, ext):
    """Move the generator's `_ext` annotations into the externals table keyed by position."""
    for n, st in enumerate(body):
        _walk(st, f"{prefix}.{n}", ext)


def _walk(st, pos, ext):
    op = st["op"]
    if "_ext" in st:
        # the script stays attached to its statement (so that shrinking a program keeps them together);
        # the interpreter registers it under the statement's position when the statement runs
        st["ext"] = st.pop("_ext")
    if op == "try":
        _walk(st["stmt"], pos + "t", ext)
        assign_externals(st.get("handler", []), pos + "/h", ext)
    elif op == "callback":
        assign_externals(st.get("between", []), pos + "/w", ext)
    elif op == "child":
        assign_externals(st["body"], pos + "/c", ext)
    elif op == "parallel":
        for b, br in enumerate(st["branches"]):
            assign_externals(br["body"], f"{pos}/b{b}", ext)
    elif op == "map":
        bodies = st["bodies"] if "bodies" in st else [st["body"]] * len(st["items"])
        for b, body in enumerate(bodies):
            assign_externals(body, f"{pos}/b{b}", ext)


def add_deferred_callback(rng, g, body):
    """create_callback at one place, result() somewhere else: later at top level or inside the branches of a later
    map/parallel (the same callback may be awaited from two branches)."""
    i = rng.randrange(0, len(body))
    st = {"op": "cbdefer", "label": "L1"}
    sc = g.ext("callback")
    if sc["outcome"] == "timeout":
        st["cfg"] = {"timeout": rng.choice([1, 3, 30])}
        sc["outcome"] = "never"
    elif rng.random() < 0.2:
        st["cfg"] = {"timeout": rng.choice([900, 7200])}
    st["_ext"] = sc
    body.insert(i, st)

    def waiter():
        r = {"op": "cbresult", "ref": "L1"}
        if rng.random() < 0.7:
            return {"op": "try", "stmt": r, "catch": ["CallableRuntimeError", "CallbackError"] + USER_ERRS, "handler": []}
        return r

    later = []
    for j in range(i + 1, len(body)):
        s_ = body[j]["stmt"] if body[j]["op"] == "try" else body[j]
        if s_["op"] == "parallel":
            later.append([b["body"] for b in s_["branches"]])
        elif s_["op"] == "map" and "bodies" in s_:
            later.append(s_["bodies"])
    if later and rng.random() < 0.65:
        bodies = rng.choice(later)
        for b in rng.sample(bodies, min(len(bodies), rng.choice([1, 1, 2]))):
            b.insert(rng.randrange(0, len(b) + 1), waiter())
    else:
        body.insert(rng.randrange(i + 1, len(body) + 1), waiter())


def gen_program(rng, prof):
    g = Gen(rng, prof)
    body = g.seq(0, False, lo=prof.get("top_lo", 2), hi=prof.get("top_hi", 6))
    if g.w.get("callback", 0) > 0 and rng.random() < prof.get("cbdefer_p", 0.12):
        add_deferred_callback(rng, g, body)
    ext = {}
    assign_externals(body, "r", ext)
    return {"body": body}, ext


def gen_knobs(rng, prof):
    k = {}
    if rng.random() < 0.7:
        k["batch"] = {"ops": rng.choice([1, 2, 3, 5, 250]), "bytes": rng.choice([300, 1000, 10_000, 750 * 1024]),
                      "window": rng.choice([0, 0.05, 0.3, 1.0])}
    k["latency"] = rng.choice([[0.001, 0.002], [0.001, 0.05], [0.01, 0.3], [0.05, 1.5], [0.5, 4.0]])
    if rng.random() < 0.4:
        k["first_page"] = rng.choice([1, 1, 2, 3, 5])
        k["state_page"] = rng.choice([1, 2, 5, 1000])
    if rng.random() < 0.3:
        k["resp_page"] = rng.choice([1, 2, 3])
    if rng.random() < 0.5:
        k["drain"] = rng.choice([0.5, 5.0])
    if rng.random() < 0.3:
        k["skew"] = rng.choice([-2.0, -0.3, 0.3, 2.0])
    if prof.get("scaled_limits", True) and rng.random() < 0.2:
        # scaled-down size limits (a stated knob): ordinary results take the summary / large-result paths
        k["limits"] = {"ckpt": rng.choice([40, 200, 1000]), "resp": rng.choice([300, 2000, 6 * 1024 * 1024 - 50])}
    if rng.random() < 0.15:
        k["empty_first_page"] = True
    if rng.random() < 0.15:
        k["empty_mid_page"] = True
    return k


def gen_sched(rng, prof):
    r = rng.random()
    s = {"seed": rng.randrange(1 << 30)}
    if r < 0.15:
        s["policy"] = "default"
    elif r < 0.8:
        s["policy"] = "walk"
        s["p"] = rng.choice([0.02, 0.1, 0.3, 0.6])
        if rng.random() < 0.3:
            s["stall_p"] = rng.choice([0.005, 0.02])
    else:
        s["policy"] = "pct"
        s["d"] = rng.choice([1, 2, 3])
        s["horizon"] = rng.choice([100, 400, 1500])
    if rng.random() < prof.get("lines_p", 0.3):
        s["lines"] = True
        s["p_line"] = rng.choice([0.005, 0.02, 0.1])
        s["stall_hot"] = rng.choice([0.0, 0.01, 0.03, 0.1])
        if rng.random() < 0.5:
            s["focus"] = rng.randrange(8)  # one more class of SDK functions is a pre-emption hot spot in this case
    return s
