"""Component-level simulations: the real OrderedLock/OrderedCounter (C19) and the real
ExecutionState checkpoint pipeline (C05) under the deterministic scheduler."""

from __future__ import annotations

import gc
import json
import random

from dexsim import seams
from dexsim import sim as _sim
from dexsim.driver import PCTPolicy, RandomWalkPolicy
from dexsim.oracles import V


def _policy(sched, salt=0):
    kind = sched.get("policy", "walk")
    seed = (sched.get("seed", 0) + salt) & 0xFFFFFFFF
    if kind == "pct":
        return PCTPolicy(seed, sched.get("d", 2), sched.get("horizon", 200))
    if kind == "default":
        return _sim.DefaultPolicy()
    return RandomWalkPolicy(seed, sched.get("p", 0.3), sched.get("p_line", 0.15), sched.get("stall_p", 0.0),
                            stall_durs=(0.01, 0.05, 0.3, 1.2), stall_hot=sched.get("stall_hot", 0.0))


def _run_sim(cfg, body, **simkw):
    seams.install()
    clock = _sim.Clock()
    s = _sim.Sim(clock, _policy(cfg["sched"]), trace_lines=bool(cfg["sched"].get("lines")), sdk_src=seams.sdk_src(),
                 step_budget=cfg.get("step_budget", 400_000), **simkw)
    if cfg.get("choices") is not None:
        s.overrides = {(k if str(k).startswith("y") else int(k)): v for k, v in cfg["choices"].items()}
    was = gc.isenabled()
    gc.disable()
    try:
        reason = s.run(lambda: body(s), drain=0.0)
    finally:
        if was:
            gc.enable()
    return s, reason


# =========================================================================== C19
def gen_c19(seed_i):
    rng = random.Random(seed_i)
    k = rng.randrange(2, 7)
    mode = rng.choice(["lock", "lock", "counter"])
    threads = []
    raising = None
    if mode == "lock" and rng.random() < 0.5:
        raising = [rng.randrange(k), None]
    for t in range(k):
        n = rng.randrange(1, 5)
        ops = [{"hold": rng.choice([0, 0, 0.01, 0.1]), "pre": rng.choice([0, 0, 0.01, 0.05])} for _ in range(n)]
        threads.append(ops)
    if raising is not None:
        raising[1] = rng.randrange(len(threads[raising[0]]))
        # the holder may leave its critical section with any exception, also one outside the Exception hierarchy
        raising.append(rng.choice(["Exception", "Exception", "BaseException", "SuspendExecution", "TimedSuspendExecution",
                                   "KeyboardInterrupt", "SystemExit", "GeneratorExit"]))
    sched = {"policy": rng.choice(["walk", "walk", "pct"]), "seed": rng.randrange(1 << 30), "p": rng.choice([0.1, 0.3, 0.6]),
             "lines": True, "p_line": rng.choice([0.05, 0.2, 0.5]), "d": rng.choice([1, 2, 3]), "horizon": rng.choice([50, 200])}
    cfg = {"kind": "c19", "mode": mode, "threads": threads, "raising": raising, "sched": sched}
    if mode == "lock" and rng.random() < 0.3:
        # one more thread tries to reset() the lock now and then (the class's only other public operation): a reset must be
        # refused while anybody is queued, so it can never let a waiter of a broken lock in
        cfg["janitor"] = [rng.choice([0, 0.01, 0.05, 0.1, 0.2]) for _ in range(rng.randrange(1, 4))]
    return cfg


class _Boom(Exception):
    pass


class _BoomBase(BaseException):
    pass


def _boom_instance(exc, cls):
    if cls == "BaseException":
        return _BoomBase("boom")
    if cls == "SuspendExecution":
        return exc.SuspendExecution("boom")
    if cls == "TimedSuspendExecution":
        return exc.TimedSuspendExecution("boom", 1.0)
    if cls in ("KeyboardInterrupt", "SystemExit", "GeneratorExit"):
        return {"KeyboardInterrupt": KeyboardInterrupt, "SystemExit": SystemExit, "GeneratorExit": GeneratorExit}[cls]("boom")
    return _Boom("boom")


def run_c19(cfg):
    thr = seams.sdk("threading")
    exc = seams.sdk("exceptions")
    from dexsim import simthreading

    log = []
    state = {"seq": 0, "inside": 0, "max_inside": 0}
    pending = {}
    ths = []

    def rec(kind, **kw):
        state["seq"] += 1
        kw["s"] = state["seq"]
        kw["k"] = kind
        if kind in ("acq-call", "inc-call", "boom"):
            kw["parked"] = [[tj, oj] for tj, oj in sorted(pending.items()) if tj != kw["t"]
                            and ths[tj]._t.state == _sim.BLOCKED and ths[tj]._t.wait_desc == "Event.wait"]
            if kind != "boom":
                pending[kw["t"]] = kw["o"]
        elif kind in ("enter", "lock-err", "inc-ret", "inc-err"):
            pending.pop(kw["t"], None)
        log.append(kw)

    def body(s):
        lock = thr.OrderedLock() if cfg["mode"] == "lock" else None
        counter = thr.OrderedCounter() if cfg["mode"] == "counter" else None

        def worker(ti, ops):
            boom = None
            for oi, op in enumerate(ops):
                if op["pre"]:
                    s.sleep(op["pre"], True, "pre")
                if counter is not None:
                    rec("inc-call", t=ti, o=oi)
                    try:
                        v = counter.increment()
                    except exc.OrderedLockError as e:
                        rec("inc-err", t=ti, o=oi, msg=str(e)[:60])
                        return
                    rec("inc-ret", t=ti, o=oi, v=v)
                    continue
                rec("acq-call", t=ti, o=oi)
                try:
                    with lock:
                        state["inside"] += 1
                        state["max_inside"] = max(state["max_inside"], state["inside"])
                        rec("enter", t=ti, o=oi, inside=state["inside"])
                        if op["hold"]:
                            s.sleep(op["hold"], True, "hold")
                        else:
                            s.yield_point(s.cur(), "cs")
                        state["inside"] -= 1
                        rec("leave", t=ti, o=oi)
                        if cfg["raising"] and cfg["raising"][0] == ti and cfg["raising"][1] == oi:
                            boom = _boom_instance(exc, cfg["raising"][2] if len(cfg["raising"]) > 2 else "Exception")
                            rec("boom", t=ti, o=oi, cls=type(boom).__name__)
                            raise boom
                except exc.OrderedLockError as e:
                    rec("lock-err", t=ti, o=oi, msg=str(e)[:80])
                    return
                except BaseException as e:  # noqa: BLE001 - only the injected exception is swallowed
                    if boom is None or e is not boom:
                        raise
                    rec("own-exc", t=ti, o=oi)
                    return
                rec("released", t=ti, o=oi)
            rec("done", t=ti)

        def janitor(delays):
            for d in delays:
                if d:
                    s.sleep(d, True, "pre")
                else:
                    s.yield_point(s.cur(), "cs")
                rec("reset-call")
                try:
                    lock.reset()
                except exc.OrderedLockError:
                    rec("reset-refused")
                else:
                    rec("reset-ok")

        for ti, ops in enumerate(cfg["threads"]):
            t = simthreading.Thread(target=worker, args=(ti, ops), name=f"w{ti}")
            ths.append(t)
        extra = []
        if cfg.get("janitor") and lock is not None:
            extra.append(simthreading.Thread(target=janitor, args=(cfg["janitor"],), name="janitor"))
        for t in list(ths) + extra:
            t.start()
        for t in ths + extra:
            t.join()
        rec("all-joined")

    s, reason = _run_sim(cfg, body)
    return {"log": log, "reason": reason, "sim": s, "max_inside": state["max_inside"], "hang_table": s.hang_table}


def oracle_c19(cfg, r):
    out = []
    log = r["log"]
    if r["reason"] != "main-done":
        out.append(V("C19", "wedged", f"threads never finished: {r['reason']}", table=r["hang_table"]))
    if r["max_inside"] > 1:
        out.append(V("C19", "not-exclusive", f"{r['max_inside']} threads inside the critical section at once"))
    for e in r["sim"].threads:
        if e.exc is not None and e.idx != 0:
            out.append(V("C19", "unexpected-exception", f"thread {e.name} died with {type(e.exc).__name__}: {e.exc}"))
    # FIFO in its sound observable form: if B was blocked inside acquire (parked) before A invoked acquire, B enters first.
    enters = {(e["t"], e["o"]): e["s"] for e in log if e["k"] == "enter"}
    for e in log:
        if e["k"] == "acq-call":
            for bt, bo in e["parked"]:
                a = (e["t"], e["o"])
                if a in enters and ((bt, bo) not in enters or enters[a] < enters[(bt, bo)]):
                    out.append(V("C19", "not-fifo", f"thread {bt} was parked inside acquire before thread {e['t']} called acquire "
                                 f"(seq {e['s']}) but thread {e['t']} entered first"))
    boom = [e for e in log if e["k"] == "boom"]
    if boom:
        b = boom[0]
        if not any(e["k"] == "own-exc" and e["t"] == b["t"] for e in log):
            out.append(V("C19", "holder-lost-own-exception", "raising holder did not see its own exception"))
        resets = [e["s"] for e in log if e["k"] == "reset-ok" and e["s"] > b["s"]]
        parked_at_break = {tuple(x) for x in b.get("parked", [])}
        for e in log:
            if e["k"] == "enter" and e["s"] > b["s"]:
                if (e["t"], e["o"]) in parked_at_break:
                    out.append(V("C19", "acquired-after-break", f"thread {e['t']} was parked in acquire when the lock broke and "
                                 "entered the critical section afterwards"))
                    break
                if not any(r_ < e["s"] for r_ in resets):  # a reset() that was ACCEPTED after the break starts a fresh lock
                    out.append(V("C19", "acquired-after-break", f"thread {e['t']} entered the critical section after the lock broke"))
                    break
        for e in log:
            if e["k"] == "lock-err" and e["s"] < b["s"]:
                out.append(V("C19", "error-before-break", f"thread {e['t']} got OrderedLockError before any holder raised"))
    else:
        for e in log:
            if e["k"] in ("lock-err", "inc-err"):
                out.append(V("C19", "spurious-lock-error", f"thread {e['t']} got OrderedLockError although no holder raised"))
                break
    if cfg["mode"] == "counter":
        vals = sorted(e["v"] for e in log if e["k"] == "inc-ret")
        n = sum(len(t) for t in cfg["threads"])
        if r["reason"] == "main-done" and vals != list(range(1, n + 1)):
            out.append(V("C19", "counter-not-1..n", f"increments returned {vals}, expected 1..{n}"))
        # order: if increment A returned before increment B was invoked, then v(A) < v(B)
        rets = [(e["s"], e["v"]) for e in log if e["k"] == "inc-ret"]
        callmap = {(e["t"], e["o"]): e["s"] for e in log if e["k"] == "inc-call"}
        retmap = {(e["t"], e["o"]): (e["s"], e["v"]) for e in log if e["k"] == "inc-ret"}
        for ka, (sa, va) in retmap.items():
            for kb, (sb, vb) in retmap.items():
                if sa < callmap[kb] and va > vb:
                    out.append(V("C19", "counter-order", f"increment {ka} returned {va} before {kb} was invoked, which got {vb}"))
                    return out
        for e in log:
            if e["k"] == "inc-call":
                a = (e["t"], e["o"])
                for bt, bo in e["parked"]:
                    if a in retmap and (bt, bo) in retmap and retmap[a][1] < retmap[(bt, bo)][1]:
                        out.append(V("C19", "counter-order", f"increment {(bt, bo)} was parked before {a} was invoked but got a larger value"))
                        return out
    return out


# =========================================================================== C05
def gen_c05(seed_i):
    rng = random.Random(seed_i)
    k = rng.randrange(1, 7)
    limit = rng.choice([200, 400, 1000, 750 * 1024])
    cfgb = {"ops": rng.choice([1, 2, 3, 5, 250]), "bytes": limit, "window": rng.choice([0, 0.05, 0.3, 1.0])}
    producers = []
    for p in range(k):
        n = rng.randrange(1, 6)
        ops = []
        for _ in range(n):
            r = rng.random()
            if r < 0.1:
                size = None  # empty checkpoint
            elif r < 0.25 and limit < 10_000:
                size = rng.choice([limit + 50, 2 * limit])
            else:
                size = rng.choice([0, 10, 60, max(0, limit // 2), max(0, limit - 160)])
            ops.append({"size": size, "sync": rng.random() < 0.6, "pre": rng.choice([0, 0, 0.01, 0.1, 0.6, 1.5])})
            if rng.random() < 0.2 and size:
                # non-ASCII payload text: `size` characters are 3x as many UTF-8 bytes and 6x as many escaped bytes
                ops[-1]["uni"] = True
                ops[-1]["size"] = max(1, size // rng.choice([2, 3, 6]))
        ops[-1]["sync"] = True
        producers.append(ops)
    sched = {"policy": rng.choice(["walk", "walk", "pct", "default"]), "seed": rng.randrange(1 << 30), "p": rng.choice([0.05, 0.3, 0.6]),
             "lines": rng.random() < 0.4, "p_line": rng.choice([0.02, 0.1]), "stall_p": rng.choice([0, 0, 0.02]),
             "d": rng.choice([1, 2, 3]), "horizon": rng.choice([100, 400])}
    cfg = {"kind": "c05", "batch": cfgb, "producers": producers, "latency": rng.choice([[0.001, 0.002], [0.01, 0.3], [0.2, 2.0]]),
           "lat_seed": rng.randrange(1 << 30), "sched": sched}
    if rng.random() < 0.4:
        cfg["resp_page"] = rng.choice([1, 1, 2])  # responses larger than this are paginated through get_execution_state
    if rng.random() < 0.35:
        # fault: the k-th API call fails (the batch may or may not have been applied); "page" fails a response page fetch
        cfg["fail"] = {"call": rng.choice([1, 1, 2, 2, 3, 4, 6]), "where": rng.choice(["checkpoint", "checkpoint", "checkpoint", "page"]),
                       "applied": rng.random() < 0.3, "exc": rng.choice(["RuntimeError", "CheckpointError", "ConnectionError"])}
    return cfg


def _fail_exc(f):
    if f["exc"] == "CheckpointError":
        ex = seams.sdk("exceptions")
        return ex.CheckpointError("injected failure", ex.CheckpointErrorCategory.INVOCATION)
    return {"RuntimeError": RuntimeError, "ConnectionError": ConnectionError}[f["exc"]]("injected failure")


def _wire_size(u):
    """Bytes of one update on the wire, in the most compact of the two JSON encodings a client could use (escaped
    ASCII as botocore does, or raw UTF-8): a batch is over the limit only if it is over it by either measure."""
    d = u.to_dict()
    return min(len(json.dumps(d).encode()), len(json.dumps(d, ensure_ascii=False).encode()))


class _ProtoService:
    """Protocol-level fake of the durable service for the component harness."""

    def __init__(self, s, cfg, rec):
        self.s = s
        self.cfg = cfg
        self.rec = rec
        self.tok = 0
        self.expected = "tok-0"
        self.calls = []
        self.pages = {}
        self.page_n = 0
        self.rng = random.Random(cfg.get("lat_seed", 0))
        self.n_ckpt = 0
        self.n_page = 0
        self.failed = False

    def checkpoint(self, durable_execution_arn, checkpoint_token, updates, client_token):
        lsvc = seams.sdk("lambda_service")
        lo, hi = self.cfg["latency"]
        names = [u.name for u in updates]
        size = sum(_wire_size(u) for u in updates)
        self.rec("api-begin", token=checkpoint_token, names=names, size=size)
        self.s.sleep(lo + (hi - lo) * self.rng.random(), True, "api")
        self.n_ckpt += 1
        f = self.cfg.get("fail")
        if self.failed:
            self.rec("api-after-failure", names=names)
        fail_now = bool(f) and f["where"] == "checkpoint" and f["call"] == self.n_ckpt
        if fail_now and not f["applied"]:
            self.failed = True
            self.rec("api-fail", names=names, applied=False)
            raise _fail_exc(f)
        self.calls.append({"token": checkpoint_token, "expected": self.expected, "names": names, "size": size,
                           "sizes": [_wire_size(u) for u in updates]})
        self.tok += 1
        self.expected = f"tok-{self.tok}"
        self.rec("api-applied", names=names)
        self.s.sleep(lo * 0.5, True, "api-resp")
        if fail_now:
            self.failed = True
            self.rec("api-fail", names=names, applied=True)
            raise _fail_exc(f)
        ops = [lsvc.Operation(operation_id=u.operation_id, operation_type=u.operation_type, status=lsvc.OperationStatus.SUCCEEDED,
                              name=u.name) for u in updates]
        page = self.cfg.get("resp_page")
        marker = None
        if page and len(ops) > page:
            self.page_n += 1
            marker = f"m{self.page_n}"
            self.pages[marker] = ops[page:]
            ops = ops[:page]
            self.rec("api-paginated", names=names)
        return lsvc.CheckpointOutput(checkpoint_token=self.expected,
                                     new_execution_state=lsvc.CheckpointUpdatedExecutionState(operations=ops, next_marker=marker))

    def get_execution_state(self, durable_execution_arn, checkpoint_token, next_marker, max_items=1000):
        lsvc = seams.sdk("lambda_service")
        lo, hi = self.cfg["latency"]
        self.rec("page-begin", marker=next_marker)
        self.s.sleep(lo + (hi - lo) * self.rng.random(), True, "api-page")
        self.n_page += 1
        f = self.cfg.get("fail")
        if self.failed:
            self.rec("api-after-failure", names=[])
        if f and f["where"] == "page" and f["call"] == self.n_page:
            self.failed = True
            self.rec("api-fail", names=[], applied=True, page=True)
            raise _fail_exc(f)
        ops = self.pages.pop(next_marker)
        page = self.cfg.get("resp_page") or 1000
        marker = None
        if len(ops) > page:
            self.page_n += 1
            marker = f"m{self.page_n}"
            self.pages[marker] = ops[page:]
            ops = ops[:page]
        self.rec("page-end", marker=next_marker, names=[o.name for o in ops])
        return lsvc.StateOutput(operations=ops, next_marker=marker)


def run_c05(cfg):
    state_mod = seams.sdk("state")
    lsvc = seams.sdk("lambda_service")
    ident = seams.sdk("identifier")
    from dexsim import simthreading

    log = []
    st = {"seq": 0}

    def rec(kind, **kw):
        st["seq"] += 1
        kw["s"] = st["seq"]
        kw["k"] = kind
        log.append(kw)

    box = {}

    def body(s):
        svc = _ProtoService(s, cfg, rec)
        box["svc"] = svc
        b = cfg["batch"]
        es = state_mod.ExecutionState("arn:sim", "tok-0", {}, svc,
                                      batcher_config=_real_cbc()(max_batch_size_bytes=b["bytes"], max_batch_time_seconds=b["window"],
                                                                 max_batch_operations=b["ops"]))
        consumer = simthreading.Thread(target=es.checkpoint_batches_forever, name="batcher")
        consumer.start()
        ths = []

        def producer(pi, ops):
            for oi, op in enumerate(ops):
                if op["pre"]:
                    s.sleep(op["pre"], True, "pre")
                name = f"p{pi}.{oi}"
                upd = None
                if op["size"] is not None:
                    upd = lsvc.OperationUpdate.create_step_succeed(
                        ident.OperationIdentifier(operation_id=f"id-{pi}-{oi}", parent_id=None, name=name), payload=("\u65e5" if op.get("uni") else "x") * op["size"])
                rec("cp-call", p=pi, o=oi, name=name if upd is not None else None, sync=op["sync"])
                try:
                    es.create_checkpoint(upd, is_sync=op["sync"])
                except _sim.SimKilled:
                    raise
                except BaseException as e:  # noqa: BLE001 - the failure a caller is released with
                    rec("cp-err", p=pi, o=oi, name=name if upd is not None else None, sync=op["sync"], cls=type(e).__name__)
                    break
                rec("cp-ret", p=pi, o=oi, name=name if upd is not None else None, sync=op["sync"],
                    merged=(f"id-{pi}-{oi}" in es.operations) if upd is not None else None)
            rec("producer-done", p=pi)

        for pi, ops in enumerate(cfg["producers"]):
            t = simthreading.Thread(target=producer, args=(pi, ops), name=f"prod{pi}")
            ths.append(t)
        for t in ths:
            t.start()
        for t in ths:
            t.join()
        rec("producers-joined")
        es.stop_checkpointing()
        consumer.join()
        rec("consumer-joined")

    s, reason = _run_sim(cfg, body, quiet_limit=30.0)
    return {"log": log, "reason": reason, "sim": s, "svc": box.get("svc"), "hang_table": s.hang_table}


def _real_cbc():
    from dexsim import driver
    state_mod = seams.sdk("state")
    return driver._REAL.get("cbc") or state_mod.CheckpointBatcherConfig


def oracle_c05(cfg, r):
    out = []
    log = r["log"]
    svc = r["svc"]
    calls = svc.calls if svc else []
    b = cfg["batch"]
    if r["reason"] != "main-done":
        blocked = [e for e in log if e["k"] == "cp-call" and not any(x["k"] in ("cp-ret", "cp-err") and x["p"] == e["p"] and x["o"] == e["o"] for x in log)]
        out.append(V("C05", "caller-never-released",
                     f"checkpoint pipeline wedged ({r['reason']}); callers still blocked: {[(e['p'], e['o'], e['name']) for e in blocked][:6]}",
                     table=r["hang_table"]))
    for t in r["sim"].threads:
        if t.exc is not None and t.idx != 0:
            out.append(V("C05", "thread-died", f"thread {t.name} died with {type(t.exc).__name__}: {t.exc}"))
    delivered = [n for c in calls for n in c["names"]]
    handed_sync_done = set()
    # everything handed over before some sync return must be delivered exactly once
    last_sync_ret = max([e["s"] for e in log if e["k"] == "cp-ret" and e["sync"]], default=0)
    handed = [e["name"] for e in log if e["k"] == "cp-call" and e["name"] is not None and e["s"] < last_sync_ret]
    # only those whose own call *returned* (handed over) before the last sync return
    ret_by = {(e["p"], e["o"]): e["s"] for e in log if e["k"] == "cp-ret"}
    handed = [e["name"] for e in log if e["k"] == "cp-call" and e["name"] is not None
              and ((not e["sync"] and ret_by.get((e["p"], e["o"]), 1 << 60) < last_sync_ret) or (e["sync"] and (e["p"], e["o"]) in ret_by))]
    failure = next((e for e in log if e["k"] == "api-fail"), None)
    if failure is not None:
        # after a failure only what was ordered before a successfully returned synchronous checkpoint must have arrived
        sync_ok_calls = [e["s"] for e in log if e["k"] == "cp-call" and e["sync"] and (e["p"], e["o"]) in ret_by]
        last_ok_call = max(sync_ok_calls, default=0)
        handed = [e["name"] for e in log if e["k"] == "cp-call" and e["name"] is not None
                  and ((not e["sync"] and ret_by.get((e["p"], e["o"]), 1 << 60) < last_ok_call) or (e["sync"] and (e["p"], e["o"]) in ret_by))]
    else:
        for e in log:
            if e["k"] == "cp-err":
                out.append(V("C05", "spurious-error", f"checkpoint of {e['name']} raised {e['cls']} although no API call failed"))
                break
    seen = {}
    for n in delivered:
        seen[n] = seen.get(n, 0) + 1
    for n, c in seen.items():
        if c > 1:
            out.append(V("C05", "duplicated", f"update {n} delivered {c} times"))
    if r["reason"] == "main-done":
        for n in handed:
            if n not in seen:
                out.append(V("C05", "lost", f"update {n} was handed over before a synchronous checkpoint returned but never delivered"))
    # per producer order
    pos = {n: i for i, n in enumerate(delivered)}
    for pi, ops in enumerate(cfg["producers"]):
        prev = -1
        for oi in range(len(ops)):
            n = f"p{pi}.{oi}"
            if n in pos:
                if pos[n] < prev:
                    out.append(V("C05", "reordered-within-producer", f"{n} delivered before an earlier update of the same producer"))
                prev = pos[n]
    # happened-before across producers: A returned before B was invoked => A delivered before B
    rets = {e["name"]: e["s"] for e in log if e["k"] == "cp-ret" and e["name"]}
    callsq = {e["name"]: e["s"] for e in log if e["k"] == "cp-call" and e["name"]}
    for a, sa in rets.items():
        for bname, sb in callsq.items():
            if sa < sb and a in pos and bname in pos and pos[a] > pos[bname]:
                out.append(V("C05", "reordered-across-producers", f"{a} was handed over (call returned) before {bname} was invoked but delivered after it"))
                break
    # sync caller released only after its update was applied
    applied_at = {}
    for e in log:
        if e["k"] == "api-applied":
            for n in e["names"]:
                applied_at.setdefault(n, e["s"])
    for e in log:
        if e["k"] == "cp-ret" and e["sync"] and e["name"]:
            if e["name"] not in applied_at or applied_at[e["name"]] > e["s"]:
                out.append(V("C05", "sync-released-before-applied", f"synchronous caller of {e['name']} released before its update was applied"))
    # the response (all its pages) is merged into the state before the batch's synchronous callers are released
    for e in log:
        if e["k"] == "cp-ret" and e["sync"] and e["name"] and e.get("merged") is False:
            out.append(V("C05", "sync-released-before-response-merged", f"synchronous caller of {e['name']} was released before the checkpoint "
                         f"response (a later page of it) had been merged into the execution state"))
            break
    # token chain and limits
    for i, c in enumerate(calls):
        if c["token"] != c["expected"]:
            out.append(V("C05", "wrong-token", f"API call {i + 1} presented {c['token']}, expected {c['expected']}"))
        if len(c["names"]) > b["ops"]:
            out.append(V("C05", "count-limit-exceeded", f"API call {i + 1} carried {len(c['names'])} updates, limit {b['ops']}"))
        if c["size"] > b["bytes"] and len(c["names"]) > 1:
            out.append(V("C05", "size-limit-exceeded", f"API call {i + 1} carried {c['size']} bytes in {len(c['names'])} updates, limit {b['bytes']}"))
    return out


def reach_c05(cfg, r):
    out = {}
    svc = r["svc"]
    calls = svc.calls if svc else []
    b = cfg["batch"]
    if len(calls) >= 2:
        out["api-calls>=2"] = 1
    if any(len(c["names"]) >= 2 for c in calls):
        out["batch-of-2+"] = 1
    if any(len(c["names"]) == b["ops"] for c in calls) and b["ops"] < 250:
        out["count-limit-hit"] = 1
    if any(s > b["bytes"] for c in calls for s in c["sizes"]):
        out["oversize-update-sent"] = 1
    if any(len(c["names"]) == 0 for c in calls):
        out["empty-checkpoint-call"] = 1
    f = next((e for e in r["log"] if e["k"] == "api-fail"), None)
    if f is not None:
        out["api-failure"] = 1
        if f.get("page"):
            out["page-fetch-failure"] = 1
        n_err = sum(1 for e in r["log"] if e["k"] == "cp-err" and e["sync"] and e["s"] > f["s"])
        calls_before = {(e["p"], e["o"]) for e in r["log"] if e["k"] == "cp-call" and e["s"] < f["s"]}
        rel = [e for e in r["log"] if e["k"] == "cp-err" and (e["p"], e["o"]) in calls_before]
        if len(rel) >= 2:
            out["failure-released-2+-blocked-callers"] = 1
        if n_err:
            out["sync-caller-released-with-failure"] = 1
    if any(e["k"] == "api-paginated" for e in r["log"]):
        out["paginated-response"] = 1
    for pi, ops in enumerate(cfg["producers"]):
        for oi, op in enumerate(ops):
            if op["size"] is not None and op["size"] > b["bytes"]:
                out["oversize-update-generated"] = 1
    return out
