"""Determinism self-test: the same seeds must give bit-identical event logs in fresh
interpreters, under different PYTHONHASHSEED values and worker counts.

usage: python selftest/determinism.py [--seeds N] [--checks C01,C05,...]
Exit 0 if every digest agrees, 1 otherwise."""

from __future__ import annotations

import argparse
import hashlib
import json
import os
import subprocess
import sys
import time

ROOT = os.path.dirname(os.path.dirname(os.path.abspath(__file__)))
sys.path.insert(0, ROOT)


def digest_case(check_id, seed_i):
    from dexsim import checks, runner
    from dexsim.driver import run_execution

    chk = checks.CHECKS[check_id]
    h = hashlib.blake2b(digest_size=12)
    if chk.component:
        base = chk.gen(seed_i)
        for j in range(2):
            cfg = dict(base)
            cfg["sched"] = dict(base["sched"], seed=(base["sched"]["seed"] + 977 * j) & 0x3FFFFFFF)
            r = chk.run(cfg)
            s = r["sim"]
            h.update(json.dumps([r["log"], r["reason"], s.steps, s.switches, s.decisions, s.clock.now], sort_keys=True, default=str).encode())
        return h.hexdigest()
    prof = chk.profile("quick")
    cfg = chk.make_cfg(seed_i, prof)
    w = run_execution(cfg)
    st = runner.golden_stats(w)
    import random
    plans = chk.fault_plans(random.Random(runner.H(seed_i, "faults")), st, prof, "quick", cfg, w)[:2]
    worlds = [w]
    for j, plan in enumerate(plans):
        c2 = dict(cfg)
        c2["faults"] = plan
        c2["sched"] = dict(cfg["sched"], seed=(cfg["sched"].get("seed", 0) + 7 * (j + 1)) & 0x3FFFFFFF)
        worlds.append(run_execution(c2))
    for x in worlds:
        inv = [{k: v for k, v in i.items() if k not in ("exc_obj", "ret")} for i in x.invocations]
        h.update(json.dumps([x.trace, inv, x.final], sort_keys=True, default=str).encode())
    return h.hexdigest()


def worker_main(argv):
    check_id, n, workers = argv[0], int(argv[1]), int(argv[2])
    from dexsim import runner, seams
    seams.install()
    seeds = [runner.H(424242, check_id, i) for i in range(n)]
    out = {}
    if workers <= 1:
        for s in seeds:
            out[str(s)] = digest_case(check_id, s)
    else:
        import multiprocessing
        from concurrent.futures import ProcessPoolExecutor
        ctx = multiprocessing.get_context("fork")
        with ProcessPoolExecutor(workers, mp_context=ctx) as ex:
            for s, d in zip(seeds, ex.map(_dc, [(check_id, s) for s in seeds])):
                out[str(s)] = d
    print("DIGESTS " + json.dumps(out, sort_keys=True))


def _dc(a):
    return digest_case(*a)


def main():
    if len(sys.argv) > 1 and sys.argv[1] == "--worker":
        return worker_main(sys.argv[2:])
    ap = argparse.ArgumentParser()
    ap.add_argument("--seeds", type=int, default=24)
    ap.add_argument("--checks", default="C01,C03,C05,C06,C07,C09,C10,C19")
    args = ap.parse_args()
    bad = 0
    t0 = time.time()
    total = 0
    for cid in args.checks.split(","):
        results = []
        for hs, workers in (("0", 1), ("0", 4), ("1", 16), ("random", 4)):
            env = dict(os.environ)
            env["PYTHONHASHSEED"] = hs
            env["PYTHONDONTWRITEBYTECODE"] = "1"
            p = subprocess.run([sys.executable, os.path.abspath(__file__), "--worker", cid, str(args.seeds), str(workers)],
                               cwd=ROOT, env=env, capture_output=True, text=True, timeout=1800)
            line = [l for l in p.stdout.splitlines() if l.startswith("DIGESTS ")]
            if not line:
                print(f"{cid}: worker failed (hashseed={hs}, workers={workers}): {p.stderr[-600:]}")
                bad += 1
                continue
            results.append(((hs, workers), json.loads(line[0][8:])))
        if len(results) < 2:
            continue
        ref = results[0][1]
        total += len(ref) * len(results)
        for cfg, d in results[1:]:
            diff = [s for s in ref if ref[s] != d.get(s)]
            if diff:
                bad += 1
                print(f"{cid}: NON-DETERMINISTIC under hashseed/workers {cfg}: {len(diff)} of {len(ref)} seeds differ, e.g. {diff[:3]}")
        print(f"{cid}: {len(ref)} seeds x {len(results)} configurations compared")
    print(f"determinism self-test: {total} case-runs in {time.time() - t0:.0f}s, mismatching groups: {bad}")
    sys.exit(1 if bad else 0)


if __name__ == "__main__":
    main()
