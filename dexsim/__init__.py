"""dexsim: deterministic simulation with fault injection for aws-durable-execution-sdk-python."""
