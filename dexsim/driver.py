"""Lambda driver: runs one whole durable execution (a chain of invocations) under the
simulator. See DESIGN.md section 3.2."""

from __future__ import annotations

import gc
import random

from dexsim import seams
from dexsim import sim as _sim
from dexsim import simtime
from dexsim.backend import FakeLambdaClient, World
from dexsim.interp import Interp

HANG_REASONS = ("deadlock", "quiet-hang", "step-budget", "time-budget")


class RandomWalkPolicy:
    """At each point keep the current thread with prob 1-p, else uniform among the others."""

    name = "walk"

    def __init__(self, seed, p=0.1, p_line=0.02, stall_p=0.0, stall_durs=(0.05, 0.3, 1.2, 3.0), stall_hot=0.0):
        self.rng = random.Random(seed)
        self.p = p
        self.p_line = p_line
        self.stall_p = stall_p
        self.stall_durs = stall_durs
        self.stall_hot = stall_hot
        self.stalls = 0

    def choose(self, sim, cur, cands, kind):
        if kind == "line":
            p = self.p_line
        elif kind == "line-hot":
            p = max(0.25, min(0.6, self.p_line * 6))
        else:
            p = self.p
        if cur is not None and cands[0] is cur:
            if self.rng.random() >= p:
                return cur
            return cands[1 + self.rng.randrange(len(cands) - 1)]
        if self.rng.random() >= p:
            return cands[0]
        return cands[self.rng.randrange(len(cands))]

    def stall(self, sim, cur, kind):
        if kind == "line-hot":
            # the thread loses the CPU between two lines of a function that touches shared state:
            # every other thread runs until it blocks before this one continues
            if self.stall_hot and self.rng.random() < self.stall_hot:
                self.stalls += 1
                return (0.001, 0.01, 0.05, 0.3, 0.3, 1.0, 2.5, 6.0)[self.rng.randrange(8)]
            return 0.0
        if self.stall_p and kind != "line" and self.rng.random() < self.stall_p:
            self.stalls += 1
            return self.stall_durs[self.rng.randrange(len(self.stall_durs))]
        return 0.0


class PCTPolicy:
    """PCT-style: random priorities, d priority-change points at random decision indices."""

    name = "pct"

    def __init__(self, seed, d=2, horizon=400, p_line=0.0):
        self.rng = random.Random(seed)
        self.prio = {}
        self.change = sorted(self.rng.randrange(1, horizon) for _ in range(d))
        self.n = 0
        self.p_line = p_line
        self.stalls = 0

    def _p(self, t):
        if t.idx not in self.prio:
            self.prio[t.idx] = self.rng.random() + 1.0
        return self.prio[t.idx]

    def choose(self, sim, cur, cands, kind):
        self.n += 1
        best = max(cands, key=lambda t: (self._p(t), -t.idx))
        if self.change and self.n >= self.change[0]:
            self.change.pop(0)
            self.prio[best.idx] = self.rng.random() * 0.5  # demote
            best = max(cands, key=lambda t: (self._p(t), -t.idx))
        return best

    def stall(self, sim, cur, kind):
        return 0.0


def make_policy(sched, inv):
    kind = sched.get("policy", "default")
    seed = (sched.get("seed", 0) * 1000003 + inv) & 0xFFFFFFFF
    if kind == "walk":
        return RandomWalkPolicy(seed, sched.get("p", 0.1), sched.get("p_line", 0.02), sched.get("stall_p", 0.0),
                                stall_hot=sched.get("stall_hot", 0.0))
    if kind == "pct":
        return PCTPolicy(seed, sched.get("d", 2), sched.get("horizon", 400))
    return _sim.DefaultPolicy()


class LambdaContext:
    aws_request_id = "req-sim"
    log_group_name = None
    log_stream_name = None
    function_name = "f"
    memory_limit_in_mb = "128"
    function_version = "1"
    invoked_function_arn = "arn:aws:lambda:sim:1:function:f"
    tenant_id = None
    client_context = None
    identity = None

    def get_remaining_time_in_millis(self):
        return 900_000

    def log(self, msg):
        return None


_REAL = {}


def _apply_knobs(cfg):
    state = seams.sdk("state")
    child = seams.sdk("operation.child")
    execu = seams.sdk("execution")
    if not _REAL:
        _REAL["cbc"] = state.CheckpointBatcherConfig
        _REAL["ckpt"] = child.CHECKPOINT_SIZE_LIMIT
        _REAL["resp"] = execu.LAMBDA_RESPONSE_SIZE_LIMIT
    b = cfg.get("batch")
    real = _REAL["cbc"]
    if b:
        kw = {"max_batch_size_bytes": b.get("bytes", 750 * 1024), "max_batch_time_seconds": b.get("window", 1.0),
              "max_batch_operations": b.get("ops", 250)}

        def factory(*a, **k):
            if a or k:
                return real(*a, **k)
            return real(**kw)

        state.CheckpointBatcherConfig = factory
    else:
        state.CheckpointBatcherConfig = real
    lim = cfg.get("limits") or {}
    child.CHECKPOINT_SIZE_LIMIT = lim.get("ckpt", _REAL["ckpt"])
    execu.LAMBDA_RESPONSE_SIZE_LIMIT = lim.get("resp", _REAL["resp"])


def run_execution(cfg):
    """Run one durable execution described by cfg; returns the World with its trace."""
    seams.install()
    _apply_knobs(cfg)
    execu = seams.sdk("execution")
    w = World(cfg)
    seed = cfg.get("seed", 0)
    w.lat_rng = random.Random(seed * 7919 + 11)
    simtime.random_ns.seed(seed * 31337 + 5)
    interp = Interp(w, cfg["program"])
    w.interp = interp
    client = FakeLambdaClient(w)
    wrapped = execu.durable_execution(interp.handler, boto3_client=client)
    if cfg.get("raw_event") is not None:
        pass
    sched = cfg.get("sched") or {}
    replay = cfg.get("choices")  # {inv(str): {decision(str): choice}}
    max_inv = cfg.get("max_inv", 40)
    be = w.backend
    w.invocations = []
    w.final = None
    gc_was = gc.isenabled()
    gc.disable()
    try:
        reason_to_invoke = "start"
        while True:
            if len(w.invocations) >= max_inv:
                w.final = {"status": "TOO-MANY-INVOCATIONS"}
                break
            w.inv += 1
            inv = w.inv
            fp = cfg.get("first_page")
            first_page = 10_000 if not fp else fp
            event, hist_ids = be.build_event(first_page)
            hist = {i: be.ops[i]["Status"] for i in hist_ids}
            hist_names = {be.ops[i].get("Name"): be.ops[i]["Status"] for i in hist_ids if be.ops[i].get("Name")}
            if cfg.get("bad_event") and inv == 1:
                event = cfg["bad_event"]
            w.rec("inv-begin", why=reason_to_invoke, n_hist=len(hist_ids), first_page=min(first_page, len(hist_ids)),
                  token=be.latest_token)
            skew = cfg.get("skew", 0.0)
            s = _sim.Sim(w.clock, make_policy(sched, inv), trace_lines=bool(sched.get("lines")),
                         sdk_src=seams.sdk_src(), sdk_skew=skew,
                         step_budget=cfg.get("step_budget", 200_000) * (8 if sched.get("lines") else 1))
            s.sdk_probe = lambda kind_, fn_, arg_: w.rec(kind_, fn=fn_, arg=arg_)
            s.focus = sched.get("focus")
            s.on_stall = lambda t_, d_: w.rec("stall", th=t_.idx, d=d_)  # observation only: oracles discount injected stalls
            if replay is not None:
                ov = replay.get(str(inv), {})
                s.overrides = {(k if str(k).startswith("y") else int(k)): v for k, v in ov.items()}
            cj = w.take_fault(lambda f: f["kind"] == "clock-jump" and f.get("inv") == inv)
            if cj:
                s.clock_jump = (cj["n"], cj["delta"])
                s.on_progress = lambda what: w.fire(what)
            cs = w.take_fault(lambda f: f["kind"] == "crash" and f.get("at") == "step" and f.get("inv") == inv)
            if cs:
                s.crash_at_step = cs["n"]
            w.sim = s
            box = {}

            def main(event=event, box=box, s=s):
                try:
                    box["ret"] = wrapped(event, LambdaContext())
                except _sim.SimKilled:
                    raise
                except BaseException as e:  # noqa: BLE001
                    box["exc"] = e
                live = [t.name for t in s.threads if t.state != _sim.DONE and t is not s.main]
                if "exc" in box:
                    w.rec("inv-return", outcome="raise", cls=type(box["exc"]).__name__, msg=str(box["exc"])[:300],
                          live=live)
                else:
                    r = box["ret"]
                    w.rec("inv-return", outcome=(r.get("Status") if isinstance(r, dict) else "?"), live=live)

            reason = s.run(main, drain=cfg.get("drain", 0.0))
            w.sim = None
            info = {"n": inv, "reason": reason, "steps": s.steps, "switches": s.switches, "decisions": s.decisions,
                    "choices": {str(k): v for k, v in s.recorded.items()}, "threads": len(s.threads),
                    "hist": hist, "hist_names": hist_names, "why": reason_to_invoke, "line_events": s.line_events,
                    "thread_excs": [(t.name, type(t.exc).__name__) for t in s.threads if t.exc is not None and t is not s.main],
                    "end_vt": w.clock.now - w.t0}
            if reason == "main-done":
                if "exc" in box:
                    info["outcome"] = "raise"
                    info["exc_cls"] = type(box["exc"]).__name__
                    info["exc_msg"] = str(box["exc"])[:300]
                    info["exc_obj"] = box["exc"]
                else:
                    r = box["ret"]
                    info["ret"] = r
                    info["outcome"] = r.get("Status") if isinstance(r, dict) and r.get("Status") in ("SUCCEEDED", "FAILED", "PENDING") else "malformed"
            elif reason == "crash" or (reason is None and s.stop_reason == "crash"):
                info["outcome"] = "crash"
            elif reason in HANG_REASONS:
                info["outcome"] = "hang"
                info["hang"] = reason
                info["hang_table"] = s.hang_table
            else:
                info["outcome"] = "harness:" + str(reason)
            w.invocations.append(info)
            w.seq += 1
            w.trace.append({"s": w.seq, "i": inv, "t": -1, "k": "inv-end", "outcome": info["outcome"],
                            "reason": reason, "vt": round(w.clock.now - w.t0, 6)})
            out = info["outcome"]
            if out in ("SUCCEEDED", "FAILED"):
                r = info["ret"]
                if be.exec_record_seq is None:
                    be.exec_status = out
                    be.exec_result = r.get("Result")
                    be.exec_error = r.get("Error")
                w.final = {"status": out, "result": r.get("Result"), "error": r.get("Error"),
                           "recorded_result": be.exec_result, "recorded_error": be.exec_error,
                           "by_update": be.exec_record_seq is not None}
                break
            if out == "hang" or out.startswith("harness") or out == "malformed":
                w.final = {"status": out.upper(), "hang": info.get("hang")}
                break
            if out in ("raise", "crash") and be.exec_record_seq is not None:
                # the backend accepted the execution's result record before the process died (lost
                # acknowledgement): the execution is closed and is not invoked again
                w.final = {"status": be.exec_status, "result": "", "error": None, "recorded_result": be.exec_result,
                           "recorded_error": be.exec_error, "by_update": True}
                break
            if out in ("raise", "crash"):
                if cfg.get("stop_on_raise") and out == "raise":
                    w.final = {"status": "RAISED", "cls": info["exc_cls"]}
                    break
                w.clock.now += cfg.get("retry_delay", 1.0)
                be.advance()
                reason_to_invoke = "lambda-retry"
                continue
            # PENDING: decide when (whether) the backend re-invokes
            be.advance()
            mark = be.tokens.get(be.latest_token, 0)
            # the backend re-invokes at once if a timer fired or an external event arrived after this
            # invocation was started (its input did not contain that change), whether or not a later
            # checkpoint response happened to carry it
            unseen = any(op["_v"] > mark for op in be.ops.values()) or any(v > be.inv_start_version for v in be.world_versions)
            sp = w.take_fault(lambda f: f["kind"] == "spurious" and f.get("after_inv") == inv)
            if unseen:
                reason_to_invoke = "unseen-change"
                w.clock.now += 0.01
                continue
            if sp:
                w.fire("spurious")
                reason_to_invoke = "spurious"
                w.clock.now += sp.get("delay", 0.5)
                continue
            nxt = be.next_event_time()
            if nxt is None:
                w.final = {"status": "STUCK"}
                break
            # jump to the first world event that changes something
            while True:
                nxt = be.next_event_time()
                if nxt is None:
                    break
                w.clock.now = max(w.clock.now, nxt)
                v0 = be.version
                be.advance()
                if be.version != v0:
                    break
            if nxt is None and not any(op["_v"] > mark for op in be.ops.values()):
                w.final = {"status": "STUCK"}
                break
            reason_to_invoke = "world-event"
    finally:
        if gc_was:
            gc.enable()
        w.sim = None
    return w
