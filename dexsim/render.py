"""Render the trace of one execution (threads x sequence numbers) for a replay file."""

from __future__ import annotations

import json


def print_trace(check_id, cfg, limit=600):
    from dexsim.driver import run_execution
    from dexsim.runner import strip_private

    w = run_execution(strip_private(cfg))
    print(f"--- trace ({len(w.trace)} events) final={w.final and w.final.get('status')}")
    for e in w.trace[:limit]:
        k = e["k"]
        rest = {a: b for a, b in e.items() if a not in ("s", "i", "t", "k", "vt", "id", "parent", "payload")}
        if "id" in e:
            rest["id"] = e["id"][:8]
        print(f"{e['s']:5d} inv{e['i']} T{e['t']:<2d} {e['vt']:10.3f} {k:14s} {json.dumps(rest, default=str)[:220]}")
    for i in w.invocations:
        print({k: v for k, v in i.items() if k in ("n", "outcome", "reason", "steps", "switches", "hang", "exc_cls", "exc_msg", "why")})
        if i.get("hang_table"):
            for row in i["hang_table"]:
                print("    blocked:", row)
