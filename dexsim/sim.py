"""Deterministic scheduler: real threads, one baton, virtual time.

Only one simulated thread ever runs; it gives the baton up only inside a simulator
primitive (or, optionally, at a line event of an SDK frame).  Who runs next is decided
by the policy object, never by the OS.  See DESIGN.md section 2.
"""

from __future__ import annotations

import sys
import threading as _rt

NEW, RUNNABLE, BLOCKED, DONE = "NEW", "RUNNABLE", "BLOCKED", "DONE"

_tls = _rt.local()

#: the simulator instance that is currently executing an invocation (one per process)
CURRENT: "Sim | None" = None

REAL_JOIN_TIMEOUT = 20.0


class SimKilled(BaseException):
    """Raised inside every simulated thread when the invocation is killed."""


class HarnessError(Exception):
    """A defect of the machinery (never a property violation)."""


class Clock:
    """Virtual wall clock shared by all invocations of one execution."""

    __slots__ = ("now",)

    def __init__(self, start: float = 1_700_000_000.0):
        self.now = start


class SimThread:
    """A simulated thread (backed by a real one that only runs with the baton)."""

    def __init__(self, sim, idx, name, target, args, kwargs, daemon):
        self.sim = sim
        self.idx = idx
        self.name = name
        self.target = target
        self.args = args
        self.kwargs = kwargs
        self.daemon = daemon
        self.state = NEW
        self.baton = _rt.Lock()
        self.baton.acquire()
        self.wait_obj = None
        self.wait_desc = ""
        self.deadline = None
        self.harness_wait = False
        self.wake_reason = None
        self.exc = None
        self.real = None
        self.joiners = []
        self.started = False

    def __hash__(self):
        return self.idx

    def __eq__(self, other):
        return self is other

    def __repr__(self):
        return f"<T{self.idx} {self.name} {self.state}>"


def current_thread():
    return getattr(_tls, "cur", None)


def _reset_process_globals():
    """Process-global counters that leak into thread names must not depend on earlier runs."""
    import itertools
    try:
        from dexsim import seams
        if seams.futures_thread is not None:
            seams.futures_thread.ThreadPoolExecutor._counter = itertools.count().__next__
    except ImportError:  # pragma: no cover
        pass


#: functions whose lines touch shared state without a lock around the whole step: pre-empted more often
def _probe_enqueue(loc):
    q = loc.get("queued_op")
    upd = getattr(q, "operation_update", None)
    return {"op": getattr(upd, "operation_id", None), "sync": getattr(q, "completion_event", None) is not None}


#: SDK functions whose entry (and, for RETURN_PROBES, exit) is reported to Sim.sdk_probe: (file suffix, function) -> extractor
#: of the argument of interest from the frame's locals. Observation only, and only under line tracing.
PROBE_FUNCTIONS = {
    ("state.py", "raise_if_orphaned"): lambda loc: loc.get("operation_id"),
    ("state.py", "_mark_orphans"): lambda loc: loc.get("context_id"),
    ("state.py", "_enqueue"): _probe_enqueue,
    ("threading.py", "set"): lambda loc: loc.get("error") is not None,
}
RETURN_PROBES = {("state.py", "_enqueue"), ("threading.py", "set")}
_PROBE_NAMES = {k[1] for k in PROBE_FUNCTIONS}


def _probe_key(code):
    if code.co_name not in _PROBE_NAMES:
        return None
    f = code.co_filename
    k = (f[f.rfind("/") + 1:], code.co_name)
    return k if k in PROBE_FUNCTIONS else None

#: set by selftest/coverage.py: (file, line) of every SDK line executed under the line tracer (reach measurement only)
COVER = None

HOT_FUNCTIONS = frozenset({
    "_on_task_complete", "_create_result", "_decide_suspend", "should_execution_suspend", "_timer_loop", "schedule_resume",
    "submit_task", "resubmitter", "execute", "create_checkpoint", "_enqueue", "_collect_checkpoint_batch",
    "checkpoint_batches_forever", "_mark_orphans", "track_replay", "set", "wait", "acquire", "release", "__exit__",
    "complete", "fail", "suspend", "suspend_with_timeout", "reset_to_pending", "run", "complete_task", "fail_task",
    "should_complete", "get_checkpoint_result", "fetch_paginated_operations", "_completed_operation_ids",
    "_is_inside_completed_context", "start_replay_if_history_has_completed_operations", "raise_if_orphaned",
    "_leave_replay_if_history_is_passed", "is_replaying", "replay", "_execute_item_in_child_context", "stop_checkpointing",
    "check_result_status", "process", "run_suspend_decision", "shutdown",
})


_FOCUS_CLASS = {}


def focus_class(name):
    """Functions outside HOT_FUNCTIONS fall into 8 classes by a stable hash of their name; a case may declare one class hot
    too (sched["focus"]), so that every function of the SDK - also one a change introduces - is a pre-emption hot spot in
    some of the cases."""
    c = _FOCUS_CLASS.get(name)
    if c is None:
        import zlib
        c = _FOCUS_CLASS[name] = zlib.crc32(name.encode()) % 8
    return c


class DefaultPolicy:
    """Never pre-empt: keep the current thread, else lowest index."""

    name = "default"
    p_line = 0.0

    def choose(self, sim, cur, cands, kind):
        return cands[0]

    def stall(self, sim, cur, kind):
        return 0.0


class Sim:
    def __init__(self, clock: Clock, policy=None, *, trace_lines=False, sdk_src="",
                 quiet_limit=60.0, step_budget=200_000, time_budget=900.0,
                 sdk_skew=0.0):
        self.clock = clock
        self.policy = policy or DefaultPolicy()
        self.trace_lines = trace_lines
        self.focus = None
        self.on_stall = None
        self.sdk_probe = None
        self._probe_raised = set()
        self.sdk_src = sdk_src
        self.quiet_limit = quiet_limit
        self.step_budget = step_budget
        self.time_budget = time_budget
        self.sdk_skew = sdk_skew
        self.threads: list[SimThread] = []
        self.killed = False
        self.finished = False
        self.stop_reason = None
        self.end_time = None
        self.ctl_baton = _rt.Lock()
        self.ctl_baton.acquire()
        self.steps = 0
        self.switches = 0
        self.decisions = 0
        self.overrides = None      # replay: {decision_no: thread idx, "y<yield_no>": stall seconds}
        self.recorded = {}         # record: same shape
        self.yields = 0
        self.start_time = clock.now
        self.harness_time = 0.0
        self.last_progress = clock.now
        self.main = None
        self.draining = False
        self.hang_table = None
        self.crash_at_step = None
        self.clock_jump = None     # (step, delta seconds): the SDK's wall clock jumps mid-invocation
        self.on_progress = None
        self.line_events = 0
        self.timeouts = 0

    # ------------------------------------------------------------------ time
    def time(self):
        return self.clock.now

    def sdk_time(self):
        return self.clock.now + self.sdk_skew

    def progress(self):
        self.last_progress = self.clock.now

    # --------------------------------------------------------------- threads
    def spawn(self, name, target, args=(), kwargs=None, daemon=False):
        t = SimThread(self, len(self.threads), name, target, args, kwargs or {}, daemon)
        self.threads.append(t)
        return t

    def start_thread(self, t: SimThread):
        if t.started:
            raise RuntimeError("threads can only be started once")
        t.started = True
        t.state = RUNNABLE
        t.real = _rt.Thread(target=self._bootstrap, args=(t,), name=f"sim-{t.idx}-{t.name}", daemon=True)
        t.real.start()
        self.progress()

    def _bootstrap(self, t: SimThread):
        t.baton.acquire()
        _tls.cur = t
        try:
            if not self.killed:
                if self.trace_lines:
                    sys.settrace(self._tracer)
                t.target(*t.args, **t.kwargs)
        except SimKilled:
            pass
        except BaseException as e:  # noqa: BLE001 - uncaught exception ends the thread
            t.exc = e
        finally:
            sys.settrace(None)
            t.state = DONE
            _tls.cur = None
            if self.killed:
                self.ctl_baton.release()
            else:
                for j in t.joiners:
                    if j.state == BLOCKED and j.wait_obj is t:
                        self._make_runnable(j, "notify")
                t.joiners = []
                self.progress()
                if t is self.main and self.stop_reason is None:
                    self.stop_reason = "main-done"
                nxt = self._next(None)
                (nxt.baton if nxt is not None else self.ctl_baton).release()

    # ------------------------------------------------------------ scheduling
    def _make_runnable(self, t, reason):
        t.state = RUNNABLE
        t.wake_reason = reason
        t.wait_obj = None
        t.deadline = None
        if reason == "notify" or t.harness_wait:
            self.progress()
        t.harness_wait = False

    def wake(self, t, reason="notify"):
        if t.state == BLOCKED:
            self._make_runnable(t, reason)

    def _next(self, cur, kind="sched"):
        """Pick the thread to run next, advancing virtual time when nobody can run.

        Returns None when control must go back to the controller."""
        while True:
            if self.killed or self.stop_reason is not None:
                return None
            self.steps += 1
            if self.steps > self.step_budget:
                self.stop_reason = "step-budget"
                self._snapshot()
                return None
            if self.clock_jump is not None and self.steps >= self.clock_jump[0]:
                self.sdk_skew += self.clock_jump[1]
                self.clock_jump = None
                if self.on_progress:
                    self.on_progress("clock-jump")
            if self.crash_at_step is not None and self.steps >= self.crash_at_step:
                self.crash_at_step = None
                self.stop_reason = "crash"
                return None
            runnable = [t for t in self.threads if t.state == RUNNABLE]
            if runnable:
                if len(runnable) == 1:
                    return runnable[0]
                if cur is not None and cur.state == RUNNABLE:
                    cands = [cur] + [t for t in runnable if t is not cur]
                else:
                    cands = runnable
                return self._decide(cur, cands, kind)
            # nobody runnable: advance the clock
            nxt = None
            harness = False
            for t in self.threads:
                if t.state == BLOCKED and t.deadline is not None:
                    if nxt is None or t.deadline < nxt:
                        nxt = t.deadline
                    if t.harness_wait:
                        harness = True
            if nxt is None:
                live = [t for t in self.threads if t.state == BLOCKED]
                if not live:
                    self.stop_reason = "all-done"
                else:
                    self.stop_reason = "deadlock"
                    self._snapshot()
                return None
            if self.end_time is not None and nxt > self.end_time:
                self.clock.now = max(self.clock.now, self.end_time)
                self.stop_reason = "drain-end"
                return None
            dt = max(0.0, nxt - self.clock.now)
            if harness:
                self.harness_time += dt
            if nxt > self.clock.now:
                self.clock.now = nxt
            for t in self.threads:
                if t.state == BLOCKED and t.deadline is not None and t.deadline <= self.clock.now:
                    self.timeouts += 1
                    self._make_runnable(t, "timeout")
            if not self.draining:
                if not harness and self.clock.now - self.last_progress > self.quiet_limit:
                    self.stop_reason = "quiet-hang"
                    self._snapshot()
                    return None
                if (self.clock.now - self.start_time) - self.harness_time > self.time_budget:
                    self.stop_reason = "time-budget"
                    self._snapshot()
                    return None

    def _decide(self, cur, cands, kind):
        n = self.decisions
        self.decisions += 1
        if self.overrides is not None:
            ch = self.overrides.get(n)
            if ch is not None:
                for t in cands:
                    if t.idx == ch:
                        return t
            return cands[0]
        t = self.policy.choose(self, cur, cands, kind)
        if t is not cands[0]:
            self.recorded[n] = t.idx
        return t

    def _snapshot(self):
        tbl = []
        for t in self.threads:
            if t.state != DONE:
                tbl.append({"thread": t.idx, "name": t.name, "state": t.state,
                            "on": t.wait_desc if t.state == BLOCKED else "",
                            "deadline": None if t.deadline is None else round(t.deadline - self.start_time, 3),
                            "harness": t.harness_wait})
        self.hang_table = tbl

    def _switch(self, cur, kind="sched"):
        nxt = self._next(cur, kind)
        if nxt is cur:
            return
        self.switches += 1
        (nxt.baton if nxt is not None else self.ctl_baton).release()
        cur.baton.acquire()
        if self.killed:
            raise SimKilled

    # ------------------------------------------------- API used by primitives
    def cur(self):
        """Current simulated thread of *this* simulator, or None (inert caller)."""
        if self.finished:
            return None
        t = getattr(_tls, "cur", None)
        if t is None or t.sim is not self:
            return None
        if self.killed:
            raise SimKilled
        return t

    def yield_point(self, cur, kind="op"):
        """A scheduling point at which `cur` stays runnable."""
        if self.killed:
            raise SimKilled
        self.yields += 1
        if self.overrides is not None:
            d = self.overrides.get(f"y{self.yields}")
            if d is not None:  # injected stall
                if self.on_stall is not None:
                    self.on_stall(cur, float(d))
                self._sleep(cur, float(d), True, "stall")
                return
        else:
            d = self.policy.stall(self, cur, kind)
            if d:
                self.recorded[f"y{self.yields}"] = d
                if self.on_stall is not None:
                    self.on_stall(cur, d)
                self._sleep(cur, d, True, "stall")
                return
        self._switch(cur, kind)

    def block(self, cur, obj, timeout=None, harness=False, desc=""):
        """Block `cur` on obj until woken or until the virtual deadline. Returns reason."""
        if self.killed:
            raise SimKilled
        cur.state = BLOCKED
        cur.wait_obj = obj
        cur.wait_desc = desc or type(obj).__name__
        cur.harness_wait = harness
        cur.wake_reason = None
        if timeout is None:
            cur.deadline = None
        else:
            cur.deadline = self.clock.now + max(0.0, timeout)
        self._switch(cur)
        return cur.wake_reason

    def _sleep(self, cur, seconds, harness, desc):
        if seconds <= 0:
            self._switch(cur)
            return
        self.block(cur, None, seconds, harness, desc)

    def sleep(self, seconds, harness=False, desc="sleep"):
        cur = self.cur()
        if cur is None:
            return
        self._sleep(cur, seconds, harness, desc)

    def request_stop(self, reason):
        """Called by a simulated thread (e.g. crash fault): give control to the controller."""
        cur = self.cur()
        if self.stop_reason is None:
            self.stop_reason = reason
        if cur is None:
            return
        self._switch(cur)
        raise SimKilled  # pragma: no cover - controller always kills after a stop

    # -------------------------------------------------------- line pre-emption
    def _tracer(self, frame, event, arg):
        if frame.f_code.co_filename.startswith(self.sdk_src):
            if self.sdk_probe is not None and not self.killed and not self.finished:
                k = _probe_key(frame.f_code)
                if k is not None:
                    # observation only: the instant at which the SDK evaluates / updates its bookkeeping
                    self.sdk_probe("sdk-call", k[1], PROBE_FUNCTIONS[k](frame.f_locals))
            return self._line_tracer
        return None

    def _line_tracer(self, frame, event, arg):
        if event in ("return", "exception"):
            if self.sdk_probe is not None and not self.killed and not self.finished:
                k = _probe_key(frame.f_code)
                if k in RETURN_PROBES:
                    if event == "exception":
                        self._probe_raised.add(id(frame))
                    else:
                        raised = id(frame) in self._probe_raised
                        self._probe_raised.discard(id(frame))
                        self.sdk_probe("sdk-ret", k[1], {"raised": raised})
            return self._line_tracer
        if event == "line":
            self.line_events += 1
            if COVER is not None:
                COVER.add((frame.f_code.co_filename, frame.f_lineno))
            if self.killed or self.finished:
                return self._line_tracer
            cur = getattr(_tls, "cur", None)
            if cur is None or cur.sim is not self or cur.state != RUNNABLE:
                return self._line_tracer
            for t in self.threads:
                if t.state == RUNNABLE and t is not cur:
                    name = frame.f_code.co_name
                    hot = name in HOT_FUNCTIONS or (self.focus is not None and focus_class(name) == self.focus)
                    self.yield_point(cur, "line-hot" if hot else "line")
                    break
        return self._line_tracer

    # -------------------------------------------------------------- controller
    def _resume(self):
        nxt = self._next(None)
        if nxt is None:
            return
        nxt.baton.release()
        if not self.ctl_baton.acquire(timeout=REAL_JOIN_TIMEOUT * 30):
            raise HarnessError("controller starved: simulated threads did not hand control back")

    def run(self, target, name="lambda-main", drain=0.0):
        """Run `target` as the main simulated thread. Returns the stop reason."""
        global CURRENT
        CURRENT = self
        _reset_process_globals()
        self.main = self.spawn(name, target)
        self.start_thread(self.main)
        self._resume()
        reason = self.stop_reason
        if reason == "main-done" and drain > 0 and any(t.state != DONE for t in self.threads):
            self.draining = True
            self.end_time = self.clock.now + drain
            self.stop_reason = None
            self._resume()
        self.kill()
        return reason

    def kill(self):
        self.killed = True
        for t in list(self.threads):
            if t.state == DONE:
                continue
            if not t.started:
                t.state = DONE
                continue
            t.baton.release()
            if not self.ctl_baton.acquire(timeout=REAL_JOIN_TIMEOUT):
                self.finished = True
                raise HarnessError(f"thread {t!r} did not unwind after kill")
        for t in self.threads:
            if t.real is not None:
                t.real.join(REAL_JOIN_TIMEOUT)
                if t.real.is_alive():
                    self.finished = True
                    raise HarnessError(f"real thread of {t!r} still alive")
        self.finished = True
        global CURRENT
        if CURRENT is self:
            CURRENT = None
