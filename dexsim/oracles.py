"""Oracles: checks over the recorded history of one simulated durable execution.
Each returns a list of violations {prop, cls, msg, ...}. See DESIGN.md section 8."""

from __future__ import annotations

import json
import re
from collections import defaultdict

from dexsim.backend import ERROR_CLASSES, TERMINAL

LEAF_OPS = {"step", "wait", "invoke", "wfcond", "callback"}
SUSPEND = {"SuspendExecution", "TimedSuspendExecution"}


def V(prop, cls, msg, **kw):
    d = {"prop": prop, "cls": cls, "msg": msg}
    d.update(kw)
    return d


def ctx_pos(pos):
    """Position of the context (child / branch) that encloses the statement at `pos`.
    Returns ('root',) | ('child', pos) | ('branch', parallel_pos, index)."""
    while True:
        if pos.endswith("t"):
            pos = pos[:-1]
            continue
        i = pos.rfind(".")
        prefix = pos[:i]
        if prefix == "r":
            return ("root",)
        if prefix.endswith("/c"):
            return ("child", prefix[:-2])
        if prefix.endswith("/w") or prefix.endswith("/h"):
            pos = prefix[:-2]
            continue
        j = prefix.rfind("/b")
        return ("branch", prefix[:j], int(prefix[j + 2:]))


class Index:
    def __init__(self, w):
        self.w = w
        self.trace = w.trace
        self.kinds = defaultdict(list)
        self.timeline = defaultdict(list)
        self.name_ids = defaultdict(list)
        self.info = {}
        self.deliveries = defaultdict(list)
        self.inv_return = {}
        self.inv_begin = {}
        stacks = defaultdict(list)
        for e in self.trace:
            k = e["k"]
            self.kinds[k].append(e)
            if k == "applied":
                if e["type"] != "EXECUTION":
                    oid = e["id"]
                    if oid not in self.info:
                        self.info[oid] = {"name": e.get("name"), "type": e["type"], "parent": e.get("parent"),
                                          "sub": e.get("sub"), "first_seq": e["s"]}
                        self.name_ids[e.get("name")].append(oid)
                    if not e.get("rejected"):
                        self.timeline[oid].append((e["s"], e["after"]))
            elif k == "world":
                self.timeline[e["id"]].append((e["s"], e["status"]))
            elif k == "call-begin":
                stacks[(e["i"], e["t"])].append(e)
            elif k in ("call-ret", "call-raise", "call-abort"):
                st = stacks[(e["i"], e["t"])]
                b = None
                while st:
                    b = st.pop()
                    if b["pos"] == e["pos"]:
                        break
                d = {"pos": e["pos"], "op": e["op"], "inv": e["i"], "s0": b["s"] if b else e["s"], "s1": e["s"],
                     "how": k[5:], "t": e["t"]}
                if b is not None and b.get("ref") is not None:
                    d["ref"] = b["ref"]  # cbresult: position of the statement that created the callback
                if k == "call-ret":
                    d["v"] = e["v"]
                else:
                    d["cls"] = e["cls"]
                    d["msg"] = e.get("msg")
                    d["etype"] = e.get("etype")
                    d["inv_level"] = e.get("inv_level", False)
                    d["inner"] = e.get("inner", False)
                self.deliveries[e["pos"]].append(d)
            elif k == "inv-return":
                self.inv_return[e["i"]] = e
            elif k == "inv-begin":
                self.inv_begin[e["i"]] = e
        self.invs = {i["n"]: i for i in w.invocations}

    def pos_id(self, pos):
        ids = self.name_ids.get(pos)
        return ids[0] if ids else None

    def status_at(self, oid, seq):
        st = None
        for s, status in self.timeline.get(oid, ()):
            if s < seq:
                st = status
            else:
                break
        return st

    def hist_status(self, inv, oid):
        info = self.invs.get(inv)
        if not info:
            return None
        return info["hist"].get(oid)

    def applied_for(self, oid):
        return [e for e in self.kinds["applied"] if e["id"] == oid]


# --------------------------------------------------------------------------- C01
def check_c01(ix):
    out = []
    w = ix.w
    for e in ix.kinds["fn-enter"]:
        if e.get("status") in TERMINAL:
            out.append(V("C01", "reexecuted", f"user function of {e['pos']} entered in invocation {e['i']} while the "
                         f"backend holds it {e['status']}", pos=e["pos"], seq=e["s"]))
    for e in ix.kinds["body-enter"]:
        st = e.get("status")
        if st in TERMINAL and not (st == "SUCCEEDED" and e.get("rc")):
            out.append(V("C01", "reexecuted-context", f"body of {e['pos']} entered in invocation {e['i']} while the "
                         f"backend holds it {st}", pos=e["pos"], seq=e["s"]))
    truth = ground_truth(ix)
    for pos, ds in ix.deliveries.items():
        oid = ix.pos_id(pos)
        if oid is None:
            continue
        for d in ds:
            hs = ix.hist_status(d["inv"], oid)
            if hs not in TERMINAL:
                continue
            if d["how"] == "raise" and _serdes_fault_at(ix, d["inv"], pos):
                continue  # the user-supplied SerDes failed (injected): the call may fail, it may not re-run anything
            if d["how"] == "abort":
                if d["cls"] in SUSPEND and d["op"] in LEAF_OPS and not d.get("inner"):
                    out.append(V("C01", "suspended-on-terminal", f"{pos} is {hs} in the history of invocation {d['inv']} "
                                 f"but the call suspended", pos=pos, seq=d["s1"]))
                continue
            t = truth.get(pos)
            if t is None:
                continue
            if t[0] == "ret":
                if d["how"] != "ret" or d["v"] != t[1]:
                    out.append(V("C01", "wrong-replayed-result", f"{pos}: recorded {json.dumps(t[1])[:120]} but invocation "
                                 f"{d['inv']} delivered {d['how']} {json.dumps(d.get('v', d.get('cls')))[:120]}", pos=pos, seq=d["s1"]))
            elif t[0] == "raise":
                if d["how"] != "raise":
                    out.append(V("C01", "wrong-replayed-result", f"{pos}: recorded failure but invocation {d['inv']} returned",
                                 pos=pos, seq=d["s1"]))
                elif t[1] is not None and d.get("msg") != t[1]:
                    out.append(V("C01", "wrong-replayed-error", f"{pos}: recorded error message {t[1]!r} but got {d.get('msg')!r}",
                                 pos=pos, seq=d["s1"]))
    return out


def _serdes_fault_at(ix, inv, pos):
    """An injected failure of a custom SerDes hit the call at `pos` (or something inside it) in invocation `inv`."""
    for e in ix.kinds["serdes-fail"]:
        if e["i"] == inv and (e["pos"] == pos or e["pos"].startswith(pos + "/") or e["pos"].startswith(pos + "#")):
            return True
    return False


def ground_truth(ix):
    """pos -> ('ret', canon) | ('raise', message) for operations whose recorded outcome is known."""
    w = ix.w
    truth = {}
    last_exit = {}
    evs = sorted(ix.kinds["fn-exit"] + ix.kinds["body-exit"] + ix.kinds["applied"], key=lambda e: e["s"])
    for e in evs:
        k = e["k"]
        if k == "fn-exit":
            last_exit[("fn", e["pos"])] = e
        elif k == "body-exit" and e.get("bkind") == "child":
            last_exit[("body", e["pos"])] = e
        elif k == "applied" and not e.get("rejected") and e["type"] in ("STEP", "CONTEXT"):
            name = e.get("name")
            if e["sub"] not in ("Step", "WaitForCondition", "RunInChildContext"):
                continue
            if name is None or name in truth:
                continue
            if e["action"] == "SUCCEED":
                if e.get("replay_children"):
                    # only a summary is recorded: the property exempts the context itself (its rebuilt result is C16's
                    # and C02's subject), the operations inside it are judged on their own
                    continue
                x = last_exit.get(("fn" if e["type"] == "STEP" else "body", name))
                if x is not None and "v" in x:
                    truth[name] = ("ret", x["v"])
            elif e["action"] == "FAIL":
                truth[name] = ("raise", (e.get("error") or {}).get("ErrorMessage"))
    # waits, callbacks, invokes: world-defined outcomes
    for oid, info in ix.info.items():
        name = info["name"]
        if name is None:
            continue
        if info["type"] == "WAIT":
            truth.setdefault(name, ("ret", ["none"]))
        elif info["type"] == "CHAINED_INVOKE":
            sc = w.backend.ext_script(name)
            if sc["outcome"] == "succeed":
                p = sc.get("payload")
                from dexsim.interp import canon
                if p is not None and p.startswith("X"):
                    p = p[1:]
                truth.setdefault(name, ("ret", canon(json.loads(p)) if p is not None else ["none"]))
            else:
                truth.setdefault(name, ("raise", None))
    return truth


# --------------------------------------------------------------------------- C02
def check_c02(ix):
    out = []
    for pos, ds in ix.deliveries.items():
        first = None
        for d in ds:
            if d["how"] == "abort" or (d["how"] == "raise" and d.get("inv_level")):
                continue
            sig = ("ret", json.dumps(d["v"])) if d["how"] == "ret" else ("raise", d["cls"], d["msg"])
            if first is None:
                first = (sig, d)
                continue
            if sig != first[0]:
                cls = "delivery-changed"
                if sig[0] == "ret" and first[0][0] == "ret" and _blank_wfcond_class(sig[1]) == _blank_wfcond_class(first[0][1]):
                    # a value derived from the class of the exception user code caught from a wait_for_condition whose
                    # check function raised: the known defect seen one step later (re-traversed context, batch item)
                    cls = "wfcond-exception-class-changed"
                elif sig[0] == "raise" and first[0][0] == "raise" and sig[2] == first[0][2]:
                    cls = "exception-class-changed"
                    if d["op"] == "wfcond":
                        cls = "wfcond-exception-class-changed"
                elif sig[0] == "ret" and first[0][0] == "ret" and d["op"] in ("parallel", "map"):
                    cls = "batch-result-changed"
                    if _only_error_type_differs(json.loads(first[0][1]), d["v"]):
                        cls = "batch-error-type-changed"
                    elif _only_started_items_completed(json.loads(first[0][1]), d["v"]):
                        cls = "batch-started-item-completed-on-replay"
                out.append(V("C02", cls, f"{pos}: invocation {first[1]['inv']} delivered {str(first[0])[:160]} but invocation "
                             f"{d['inv']} delivered {str(sig)[:160]}", pos=pos, seq=d["s1"]))
                break
    return out


_WFCOND_CAUGHT = re.compile(r'"[A-Za-z]+"((?:[\[\],\s]|"str"|"list")*"check failed")')


def _blank_wfcond_class(js):
    """Canonical JSON of a delivered value with the class name blanked in every record of an exception caught from a
    wait_for_condition check function: the string that directly precedes the scripted message 'check failed' (used for
    nothing else), at any depth of canonical nesting."""
    return _WFCOND_CAUGHT.sub(r'"*"\1', js)


def _only_error_type_differs(a, b):
    try:
        if a[0] != "batch" or b[0] != "batch" or a[1] != b[1] or len(a[2]) != len(b[2]):
            return False
        diff = False
        for x, y in zip(a[2], b[2]):
            if x[:3] != y[:3]:
                return False
            if x[3] != y[3]:
                if x[3] is None or y[3] is None or x[3][1] != y[3][1]:
                    return False
                diff = True
        return diff
    except (IndexError, TypeError):
        return False


def _only_started_items_completed(a, b):
    """b differs from a only in items that a reports STARTED and b reports finished (and the reason)."""
    try:
        if a[0] != "batch" or b[0] != "batch" or len(a[2]) != len(b[2]):
            return False
        diff = False
        for x, y in zip(a[2], b[2]):
            if x == y:
                continue
            if x[0] == y[0] and x[1] == "STARTED" and y[1] in ("SUCCEEDED", "FAILED"):
                diff = True
                continue
            return False
        return diff
    except (IndexError, TypeError):
        return False


def normalise_wfcond_caught(x):
    """Blank the exception class of ["caught", cls, "check failed", ...] entries (known finding C02/wfcond class)."""
    if isinstance(x, list):
        if len(x) >= 3 and x[0] == "caught" and x[2] == "check failed":
            return ["caught", "*", x[2]] + [normalise_wfcond_caught(y) for y in x[3:]]
        if len(x) == 2 and x[1] == "check failed" and isinstance(x[0], str):
            return ["*", x[1]]  # error [type, message] of a batch item
        return [normalise_wfcond_caught(y) for y in x]
    return x


def final_outcome(w):
    f = w.final or {}
    st = f.get("status")
    if st == "SUCCEEDED":
        return ("SUCCEEDED", f.get("recorded_result") if f.get("by_update") else f.get("result"))
    if st == "FAILED":
        err = f.get("recorded_error") if f.get("by_update") else f.get("error")
        err = err or {}
        return ("FAILED", err.get("ErrorType"), err.get("ErrorMessage"))
    return (st,)


# --------------------------------------------------------------------------- C03
def check_c03(ix, prop="C03"):
    out = []
    w = ix.w
    for pos, ds in ix.deliveries.items():
        for d in ds:
            op = d["op"]
            if d["how"] == "abort":
                continue
            if d["how"] == "raise" and d.get("inner"):
                continue  # raised by code between create_callback and result(), not by the operation
            if d["how"] == "raise":
                # StepInterruptedError from ctx.step is the final error of an interrupted at-most-once step whose strategy
                # declined a retry: like every final error it may be raised only after the FAIL record is accepted
                final_interrupt = op == "step" and d["cls"] == "StepInterruptedError"
                if d.get("inv_level") and not final_interrupt:
                    continue
                if not (d["cls"] == "CallableRuntimeError" or op == "wfcond" or final_interrupt):
                    continue
                if op == "wfcond" and d["cls"] in ("ExecutionError", "ValidationError"):
                    continue
            if op in ("callback", "cbresult"):
                oid = ix.pos_id(pos if op == "callback" else d.get("ref"))
                if oid is None:
                    if d["how"] == "ret":
                        out.append(V(prop, "outcome-before-record", f"{pos}: callback result delivered but the backend "
                                     f"never accepted the callback", pos=pos, seq=d["s1"]))
                    continue
                st = ix.status_at(oid, d["s1"])
                if st not in TERMINAL:
                    out.append(V(prop, "outcome-before-record", f"{pos}: callback outcome delivered while backend status is {st}",
                                 pos=pos, seq=d["s1"]))
                continue
            if op in ("step", "wait", "invoke", "wfcond", "child", "parallel", "map", "wfc"):
                oid = ix.pos_id(pos)
                st = ix.status_at(oid, d["s1"]) if oid else None
                if st not in TERMINAL:
                    out.append(V(prop, "outcome-before-record", f"{pos} ({op}) delivered {d['how']} at seq {d['s1']} in invocation "
                                 f"{d['inv']} while the backend holds status {st}", pos=pos, seq=d["s1"]))
    # PENDING only when durably parked
    for inv, r in ix.inv_return.items():
        if r["outcome"] == "PENDING":
            out.extend(_parking(ix, inv, r, prop))
            done = [e for e in ix.kinds["handler-done"] if e["i"] == inv]
            if done and done[-1]["how"] not in SUSPEND:
                out.append(V(prop, "pending-without-suspension", f"invocation {inv} reported PENDING although user code did not suspend "
                             f"(it ended with {done[-1]['how']})", seq=r["s"]))
        elif r["outcome"] == "SUCCEEDED":
            info = ix.invs.get(inv) or {}
            ret = info.get("ret") or {}
            if ret.get("Result", None) == "" and w.backend.exec_record_seq is None:
                out.append(V(prop, "empty-result-without-record", "SUCCEEDED with empty payload but no EXECUTION result record "
                             "was accepted", seq=r["s"]))
            elif ret.get("Result", None) == "" and w.backend.exec_record_seq > r["s"]:
                out.append(V(prop, "empty-result-without-record", "EXECUTION result record accepted after the return", seq=r["s"]))
    return out


def returned_parents(ix, inv, before_seq):
    """Positions of child/parallel/map calls that were delivered (ret/raise) in `inv` before seq."""
    done = {}
    for pos, ds in ix.deliveries.items():
        for d in ds:
            if d["inv"] == inv and d["op"] in ("parallel", "map", "child") and d["how"] in ("ret", "raise") and d["s1"] < before_seq:
                done[pos] = d["s1"]
    return done


def _is_under(pos, parent):
    return pos.startswith(parent + "/")


def _parking(ix, inv, r, prop):
    out = []
    s_ret = r["s"]
    done = returned_parents(ix, inv, s_ret)
    aborts = []
    for pos, ds in ix.deliveries.items():
        for d in ds:
            if d["inv"] == inv and d["how"] == "abort" and d["cls"] in SUSPEND and d["op"] in (LEAF_OPS | {"wfc", "cbresult"}) and not d.get("inner"):
                # a branch of a map/parallel that has already returned is an orphan: its result is final without it
                if any(_is_under(pos, p) and ix.deliveries[p][0]["op"] in ("parallel", "map") for p in done):
                    continue
                aborts.append(d)
    # only the last suspension of each position counts (resubmitted branches park again)
    last = {}
    for d in aborts:
        if d["pos"] not in last or d["s1"] > last[d["pos"]]["s1"]:
            last[d["pos"]] = d
    for pos, d in last.items():
        if any(x["inv"] == inv and x["s0"] > d["s1"] for x in ix.deliveries[pos]):
            continue
        op = d["op"]
        names = [pos]
        if op == "wfc":
            names = [pos + " create callback id", pos + " submitter"]
        elif op == "cbresult":
            names = [d.get("ref")]
        ok = False
        seen = []
        for nm in names:
            oid = ix.pos_id(nm)
            st = ix.status_at(oid, s_ret) if oid else None
            seen.append((nm, st))
            if st is None:
                continue
            typ = ix.info[oid]["type"]
            if st in TERMINAL:
                ok = True
            elif typ == "STEP" and st in ("PENDING", "READY"):
                ok = True
            elif typ in ("WAIT", "CALLBACK", "CHAINED_INVOKE") and st == "STARTED":
                ok = True
            elif typ == "CHAINED_INVOKE" and st == "PENDING":
                ok = True  # accepted, not running yet
        if not ok:
            out.append(V(prop, "pending-not-parked", f"invocation {inv} returned PENDING but {pos} ({op}) suspended with backend "
                         f"state {seen}: no registered wake source", pos=pos, seq=s_ret))
    return out


# --------------------------------------------------------------------------- C04
def check_c04(ix, amo_positions, program=None):
    out = []
    seen = {}
    if program is not None:
        # "an attempt found started-but-unfinished is retried or failed according to the retry strategy": whatever ends an
        # attempt (its own failure or an interruption), the strategy is asked with the number of attempts made, so no
        # attempt beyond the strategy's bound is ever entered
        sts = statements(program)
        worst = {}
        for e in ix.kinds["fn-enter"]:
            if e["pos"] in amo_positions and e["fn"] == "step" and e["pos"] in sts:
                worst[e["pos"]] = max(worst.get(e["pos"], 0), e["attempt"])
        for pos, n in sorted(worst.items()):
            m = strategy_model(sts[pos].get("retry"))
            if m["max_attempts"] is not None and n > m["max_attempts"]:
                out.append(V("C04", "attempt-beyond-strategy", f"at-most-once step {pos}: attempt {n} was entered although the retry "
                             f"strategy allows {m['max_attempts']} attempts (an interrupted attempt counts as an attempt made)", pos=pos))
    for e in ix.kinds["fn-enter"]:
        if e["pos"] not in amo_positions or e["fn"] != "step":
            continue
        key = (e["pos"], e["attempt"])
        if key in seen:
            out.append(V("C04", "attempt-entered-twice", f"at-most-once step {e['pos']} attempt {e['attempt']} entered in invocation "
                         f"{seen[key]['i']} (status {seen[key]['status']}) and again in invocation {e['i']} (status {e['status']})",
                         pos=e["pos"], seq=e["s"], attempt=e["attempt"]))
        else:
            seen[key] = e
        if e.get("status") != "STARTED":
            out.append(V("C04", "entered-without-start", f"at-most-once step {e['pos']} attempt {e['attempt']} entered while the backend "
                         f"record is {e.get('status')} (no durable START for this attempt)", pos=e["pos"], seq=e["s"],
                         attempt=e["attempt"]))
    return out


# --------------------------------------------------------------------------- C06
def expected_for_error(err, opname):
    if opname == "get":
        return "raise"
    return "raise" if ERROR_CLASSES[err][3] else "FAILED"


def _fire_and_forget_only(begin):
    """The call carried nothing but records no caller waits for (context START, step / wait_for_condition START)."""
    kinds = (begin or {}).get("kinds")
    return bool(kinds) and all(k[1] == "START" and k[0] in ("CONTEXT", "STEP") for k in kinds)


def _failed_after_user_code_ended(ix, inv, f):
    """The failing call was still flushing fire-and-forget records (context / at-least-once step START) when the handler had
    already returned or suspended: every record anything depended on had been awaited, no durable call can observe the
    failure any more, and the lost records are sent again by the next invocation. The property speaks of what happens AFTER
    a failure; the handler's outcome was decided before it."""
    done = [e for e in ix.kinds["handler-done"] if e["i"] == inv]
    return bool(done) and done[-1]["s"] < f["s"]


def check_c06(ix, amo_positions=()):
    out = []
    w = ix.w
    for info in w.invocations:
        inv = info["n"]
        fails = [e for e in ix.kinds["api-end"] if e["i"] == inv and not e.get("ok") and e.get("err") in ERROR_CLASSES]
        if not fails:
            continue
        f = fails[0]
        begin = next((b for b in ix.kinds["api-begin"] if b["call"] == f["call"]), None)
        opname = begin["op"] if begin else "checkpoint"
        n_upd = begin["n"] if begin else 0
        later = [b for b in ix.kinds["api-begin"] if b["i"] == inv and b["s"] > f["s"]]
        if later:
            out.append(V("C06", "api-call-after-failure", f"invocation {inv}: API call {later[0]['call']} begun after call {f['call']} failed",
                         seq=later[0]["s"]))
        oc = info["outcome"]
        if oc == "hang":
            out.append(V("C06", "hang-after-failure", f"invocation {inv}: {info.get('hang')} after API call {f['call']} ({opname}, "
                         f"{n_upd} updates) failed with {f['err']}", seq=f["s"], hang=info.get("hang"), table=info.get("hang_table")))
            continue
        if oc == "crash":
            continue
        exp = expected_for_error(f["err"], opname)
        if oc in ("SUCCEEDED", "PENDING"):
            if n_upd == 0 and opname == "checkpoint":
                w.hit("c06-open-corner-empty-checkpoint")
                continue
            if _failed_after_user_code_ended(ix, inv, f):
                w.hit("c06-failure-after-user-code-ended")
                continue
            if _fire_and_forget_only(begin) and not later:
                # nobody waited for any record of the failed call and nobody issued a checkpoint afterwards: the SDK abandons
                # such records by design (stop_checkpointing), the next invocation sends them again. That a checkpoint
                # issued after the failure is refused is judged below (checkpoint-accepted-after-failure).
                w.hit("c06-unobserved-failure-of-fire-and-forget-batch")
                continue
            out.append(V("C06", "success-after-failure", f"invocation {inv} returned {oc} although API call {f['call']} ({opname}) failed "
                         f"with {f['err']}", seq=f["s"]))
        elif oc == "raise" and exp == "FAILED":
            out.append(V("C06", "misclassified-raise", f"invocation {inv} raised {info.get('exc_cls')} for non-retriable error {f['err']}",
                         seq=f["s"]))
        elif oc == "FAILED" and exp == "raise" and not _failed_on_its_own(ix, inv, info):
            out.append(V("C06", "misclassified-failed", f"invocation {inv} returned FAILED for retriable error {f['err']}", seq=f["s"]))
    # "every caller ... subsequently issuing a checkpoint is woken with the failure": under line tracing the simulator reports
    # the entry and exit of ExecutionState._enqueue and of CompletionEvent.set. Once the first set(error) of an invocation has
    # RETURNED the failure flag is up; an _enqueue that is entered after that and returns normally accepted a checkpoint
    # (blocking or not) that must have been refused.
    for info in w.invocations:
        inv = info["n"]
        flag = next((e["s"] for e in ix.kinds["sdk-ret"] if e["i"] == inv and e["fn"] == "set"
                     and any(c["i"] == inv and c["fn"] == "set" and c["arg"] is True and c["t"] == e["t"] and c["s"] < e["s"]
                             for c in ix.kinds["sdk-call"])), None)
        if flag is None:
            continue
        for c in ix.kinds["sdk-call"]:
            if c["i"] != inv or c["fn"] != "_enqueue" or c["s"] < flag:
                continue
            r_ = next((e for e in ix.kinds["sdk-ret"] if e["i"] == inv and e["fn"] == "_enqueue" and e["t"] == c["t"] and e["s"] > c["s"]), None)
            if r_ is not None and not r_["arg"]["raised"]:
                out.append(V("C06", "checkpoint-accepted-after-failure", f"invocation {inv}: a {'blocking' if c['arg']['sync'] else 'non-blocking'} "
                             f"checkpoint of operation {str(c['arg']['op'])[:8]} was accepted (seq {c['s']}) after the checkpoint failure had "
                             f"been published (seq {flag})", seq=c["s"]))
                break
    first_fail = {}
    for e in ix.kinds["api-end"]:
        if not e.get("ok") and e.get("err") in ERROR_CLASSES and e["i"] not in first_fail:
            first_fail[e["i"]] = e["s"]
    for v in check_c03(ix, "C06"):
        inv_ = next((d["inv"] for d in ix.deliveries.get(v.get("pos"), []) if d["s1"] == v.get("seq")), None)
        if inv_ in first_fail or v["cls"] != "outcome-before-record":
            out.append(v)
    for e in ix.kinds["fn-enter"]:
        if e["pos"] in amo_positions and e["fn"] == "step" and e["i"] in first_fail and e["s"] > first_fail[e["i"]] \
                and e.get("status") != "STARTED":
            out.append(V("C06", "entered-without-start", f"at-most-once step {e['pos']} entered after the checkpoint failure while the "
                         f"backend record is {e.get('status')}", pos=e["pos"], seq=e["s"]))
    return out


# --------------------------------------------------------------------------- C07
def check_c07(ix, bound=None):
    out = []
    w = ix.w
    for inv, r in ix.inv_return.items():
        if r["outcome"] == "PENDING":
            out.extend(_parking(ix, inv, r, "C07"))
            out.extend(_abandoned(ix, inv, r))
    for info in w.invocations:
        if info["outcome"] == "hang":
            if any(e["i"] == info["n"] and not e.get("ok") for e in ix.kinds["api-end"]):
                continue  # hang after a checkpoint failure is C06's
            out.append(V("C07", "invocation-spins" if info["hang"] == "step-budget" else "invocation-never-ends",
                         f"invocation {info['n']} never ended: {info['hang']}",
                         hang=info["hang"], table=info.get("hang_table")))
    st = (w.final or {}).get("status")
    if st == "STUCK":
        out.append(V("C07", "stuck", "execution is PENDING with no armed timer and no outstanding external event"))
    elif st == "TOO-MANY-INVOCATIONS":
        out.append(V("C07", "no-termination", f"execution not terminal after {len(w.invocations)} invocations"))
    elif bound is not None and len(w.invocations) > bound and st in ("SUCCEEDED", "FAILED"):
        out.append(V("C07", "too-many-invocations", f"{len(w.invocations)} invocations > bound {bound}"))
    return out


def _abandoned(ix, inv, r):
    """A user function entered before the last finish/park of a sibling branch is still
    executing when PENDING is returned."""
    out = []
    s_ret = r["s"]
    enters = [e for e in ix.kinds["fn-enter"] if e["i"] == inv and e["s"] < s_ret]
    exits = {(e["pos"], e["n"]) for e in ix.kinds["fn-exit"] if e["i"] == inv and e["s"] < s_ret}
    done = returned_parents(ix, inv, s_ret)
    for e in enters:
        if (e["pos"], e["n"]) in exits:
            continue
        c = ctx_pos(e["pos"])
        if c[0] != "branch":
            continue
        # orphan of a parent that already returned: not "in-flight work of the suspended executor"
        if any(_is_under(e["pos"], p) and s < s_ret for p, s in done.items()):
            continue
        par = c[1]
        sib = [x for x in ix.kinds["body-exit"] if x["i"] == inv and x.get("parent") == par and x["s"] < s_ret
               and x.get("index") != c[2]]
        if not sib:
            continue
        last = max(x["s"] for x in sib)
        if e["s"] < last:
            out.append(V("C07", "pending-while-running", f"invocation {inv} returned PENDING while the user function of {e['pos']} "
                         f"(entered at seq {e['s']}, before its sibling's last finish/park at seq {last}) was still executing",
                         pos=e["pos"], seq=s_ret))
    return out


# --------------------------------------------------------------------------- C08
def c08_path_ids(ix):
    """path -> id of one execution (first id seen per path)."""
    path_id = {}
    id_path = {}
    for e in ix.kinds["applied"]:
        if e["type"] == "EXECUTION" or e.get("name") is None:
            continue
        name = e["name"]
        if e.get("sub") in ("ParallelBranch", "MapIteration"):
            pp = id_path.get(e.get("parent"))
            if pp is None:
                continue
            path = f"{pp}/{name}"
        else:
            path = name
        if path not in path_id:
            path_id[path] = e["id"]
            id_path.setdefault(e["id"], path)
    return path_id


def check_c08(worlds_or_ix, other_ids=None):
    """Identity: path -> Id is a function over all given executions, injective, parents match."""
    out = []
    ixs = worlds_or_ix if isinstance(worlds_or_ix, list) else [worlds_or_ix]
    path_id = {}
    id_path = {}
    if other_ids:
        mine = c08_path_ids(ixs[0])
        for path, oid in mine.items():
            if path in other_ids and other_ids[path] != oid:
                out.append(V("C08", "id-differs-between-executions", f"{path} recorded under id {oid[:12]} in this execution but under "
                             f"{other_ids[path][:12]} in the fault-free execution of the same program", pos=path))
                break
    for n, ix in enumerate(ixs):
        for e in ix.kinds["applied"]:
            if e["type"] == "EXECUTION":
                continue
            name = e.get("name")
            if name is None:
                continue
            sub = e.get("sub")
            if sub in ("ParallelBranch", "MapIteration"):
                ppath = id_path.get(e.get("parent"))
                path = f"{ppath}/{name}" if ppath else None
            elif name.endswith(" create callback id") or name.endswith(" submitter"):
                path = name
            else:
                path = name
            if path is None:
                continue
            oid = e["id"]
            if path in path_id and path_id[path] != oid:
                out.append(V("C08", "id-not-stable", f"{path} recorded under id {path_id[path][:12]} and under {oid[:12]}", pos=path,
                             seq=e["s"]))
                continue
            if oid in id_path and id_path[oid] != path:
                out.append(V("C08", "id-collision", f"{id_path[oid]} and {path} share id {oid[:12]}", pos=path, seq=e["s"]))
                continue
            path_id[path] = oid
            id_path[oid] = path
            # parent link
            cands = _expected_parent_paths(path, sub)
            par = e.get("parent")
            if cands is None:
                if par:
                    out.append(V("C08", "parent-wrong", f"{path} reported ParentId {par[:12]} but is at the root", pos=path, seq=e["s"]))
            else:
                pids = [path_id[c] for c in cands if c in path_id]
                if pids and par not in pids:
                    out.append(V("C08", "parent-wrong", f"{path} reported ParentId {str(par)[:12]} but its enclosing context {cands[0]} "
                                 f"has id {pids[0][:12]}", pos=path, seq=e["s"]))
                elif not pids and not par:
                    out.append(V("C08", "parent-wrong", f"{path} reported no ParentId but is nested in {cands[0]}", pos=path, seq=e["s"]))
    return out


def _expected_parent_paths(path, sub):
    if sub in ("ParallelBranch", "MapIteration"):
        return [path.rsplit("/", 1)[0]]
    base = path
    for suf in (" create callback id", " submitter"):
        if base.endswith(suf):
            return [base[: -len(suf)]]
    c = ctx_pos(base)
    if c[0] == "root":
        return None
    if c[0] == "child":
        return [c[1]]
    return [f"{c[1]}/parallel-branch-{c[2]}", f"{c[1]}/map-item-{c[2]}"]


# --------------------------------------------------------------------------- C10
def check_c10(ix):
    out = []
    for e in ix.kinds["applied"]:
        if e.get("under_done"):
            fresh = e["prev"] is None
            out.append(V("C10", "update-under-completed-new" if fresh else "update-under-completed-existing",
                         f"{e['type']} {e['action']} for {e.get('name')} reached the backend in invocation {e['i']} although its ancestor "
                         f"context {e.get('under_name')} was already complete", pos=e.get("name"), seq=e["s"]))
    for pos, ds in ix.deliveries.items():
        for d in ds:
            if d["op"] not in ("parallel", "map") or d["how"] not in ("ret", "raise"):
                continue
            for e in ix.kinds["fn-enter"]:
                if e["i"] != d["inv"] or e["s"] < d["s1"] or not _is_under(e["pos"], pos):
                    continue
                begins = [b for b in ix.kinds["call-begin"] if b["i"] == e["i"] and b["pos"] == e["pos"] and b["s"] < e["s"]]
                if begins and begins[-1]["s"] > d["s1"]:
                    out.append(V("C10", "orphan-function-ran", f"user function of {e['pos']} entered at seq {e['s']} for a durable call begun "
                                 f"after {pos} had returned (seq {d['s1']})", pos=e["pos"], seq=e["s"]))
            for e in ix.kinds["body-enter"]:
                if e["i"] != d["inv"] or e["s"] < d["s1"] or not _is_under(e["pos"], pos) or e.get("bkind") != "child":
                    continue
                if e.get("status") in TERMINAL:
                    continue  # a completed (ReplayChildren) context traversed again when its branch is resubmitted: not an orphan
                begins = [b for b in ix.kinds["call-begin"] if b["i"] == e["i"] and b["pos"] == e["pos"] and b["s"] < e["s"]]
                if begins and begins[-1]["s"] > d["s1"]:
                    out.append(V("C10", "orphan-function-ran", f"child body {e['pos']} entered after {pos} had returned", pos=e["pos"], seq=e["s"]))
    # Under line tracing the simulator reports when the SDK enters its orphan test and its orphan marking. A function (or
    # child body) entered although this thread's last orphan test for that operation began AFTER an enclosing context's
    # descendants had been marked (= its completion record handed over) was not stopped. (A test that began before the
    # marking is the inherent check-then-act window and is not judged.)
    calls = ix.kinds["sdk-call"]
    if calls:
        marks = [c for c in calls if c["fn"] == "_mark_orphans"]
        tests = [c for c in calls if c["fn"] == "raise_if_orphaned"]
        entries = [e for e in ix.kinds["fn-enter"]] + [e for e in ix.kinds["body-enter"]
                                                       if e.get("bkind") == "child" and e.get("status") not in TERMINAL]
        for e in entries:
            oid = ix.pos_id(e["pos"])
            if oid is None:
                continue
            anc, cur, n = set(), (ix.info.get(oid) or {}).get("parent"), 0
            while cur and n < 64:
                anc.add(cur)
                cur = (ix.info.get(cur) or {}).get("parent")
                n += 1
            # (a) the durable call itself BEGAN after the hand-over: whatever the SDK tests or does not test, the function of
            # an orphan must not be entered (a new operation is refused its START, an existing one fails the orphan test)
            begun = [b for b in ix.kinds["call-begin"] if b["i"] == e["i"] and b["pos"] == e["pos"] and b["t"] == e["t"] and b["s"] < e["s"]]
            hit = next((m for m in marks if begun and m["i"] == e["i"] and m["arg"] in anc and m["s"] < begun[-1]["s"]), None)
            if hit is not None:
                out.append(V("C10", "orphan-function-ran", f"user function of {e['pos']} entered at seq {e['s']} for a durable call begun "
                             f"(seq {begun[-1]['s']}) after the completion of an enclosing context had been handed over (seq {hit['s']})",
                             pos=e["pos"], seq=e["s"]))
                continue
            # (b) the call began earlier, but this thread's last orphan test for the operation began after the hand-over
            mine = [c for c in tests if c["arg"] == oid and c["t"] == e["t"] and c["i"] == e["i"] and c["s"] < e["s"]]
            if not mine:
                continue
            s_chk = mine[-1]["s"]
            for m in marks:
                if m["i"] == e["i"] and m["arg"] in anc and m["s"] < s_chk:
                    out.append(V("C10", "orphan-test-passed-after-completion", f"user function of {e['pos']} entered at seq {e['s']} although "
                                 f"its orphan test (seq {s_chk}) began after the completion of an enclosing context was handed over "
                                 f"(seq {m['s']})", pos=e["pos"], seq=e["s"]))
                    break
    return out


# --------------------------------------------------------------------------- C11
def check_c11(ix):
    out = []
    for b in ix.w.backend.lifecycle:
        if b["why"] == "retry-delay-below-1":
            continue
        out.append(V("C11", "lifecycle:" + b["why"], f"{b['type']} {b['action']} for {b['name']} in invocation {b['inv']} with backend status "
                     f"{b['status']}: {b['why']}", pos=b["name"], seq=b["seq"]))
    return out


# ------------------------------------------------------------------ program helpers
def statements(program):
    """pos -> statement (inner statement for try)."""
    out = {}

    def walk(body, prefix):
        for n, st in enumerate(body):
            one(st, f"{prefix}.{n}")

    def one(st, pos):
        op = st["op"]
        if op == "try":
            one(st["stmt"], pos + "t")
            walk(st.get("handler", []), pos + "/h")
            return
        out[pos] = st
        if op == "callback":
            walk(st.get("between", []), pos + "/w")
        elif op == "child":
            walk(st["body"], pos + "/c")
        elif op == "parallel":
            for b, br in enumerate(st["branches"]):
                walk(br["body"], f"{pos}/b{b}")
        elif op == "map":
            bodies = st["bodies"] if "bodies" in st else [st["body"]] * len(st["items"])
            for b, body in enumerate(bodies):
                walk(body, f"{pos}/b{b}")

    walk(program["body"], "r")
    return out


PRESETS = {
    "none": dict(max_attempts=1, initial=5, max=300, rate=2.0, jitter="FULL"),
    "default": dict(max_attempts=6, initial=5, max=60, rate=2, jitter="FULL"),
    "transient": dict(max_attempts=3, initial=5, max=300, rate=2, jitter="HALF"),
    "resource_availability": dict(max_attempts=5, initial=5, max=300, rate=2, jitter="FULL"),
    "critical": dict(max_attempts=10, initial=1, max=60, rate=1.5, jitter="NONE"),
}


def strategy_model(rs):
    """Reference model of a retry spec: returns dict(max_attempts, decide(err_cls, msg, n) -> (retry, lo, hi))."""
    import math

    if rs is None:
        rs = {"kind": "preset", "name": "default"}
    if rs["kind"] == "script":
        decs = rs["decisions"]
        n_retry = 0
        for d in decs:
            if "retry" in d:
                n_retry += 1
            else:
                break
        unbounded = all("retry" in d for d in decs)

        def decide(cls, msg, n):
            d = decs[min(n, len(decs)) - 1]
            if "retry" in d:
                return True, d["retry"], d["retry"]
            return False, 0, 0

        return {"max_attempts": None if unbounded else n_retry + 1, "decide": decide, "packaged": False}
    if rs["kind"] == "preset":
        p = dict(PRESETS[rs["name"]])
    else:
        p = dict(max_attempts=rs.get("max_attempts", 3), initial=rs.get("initial", 5), max=rs.get("max", 300),
                 rate=rs.get("rate", 2.0), jitter=rs.get("jitter", "FULL"))
        if "errors" in rs:
            p["errors"] = rs["errors"]
        if "types" in rs:
            p["types"] = rs["types"]

    def decide(cls, msg, n):
        if n >= p["max_attempts"]:
            return False, 0, 0
        errors, types = p.get("errors"), p.get("types")
        if errors is None and types is None:
            match = True
        else:
            match = any(e in msg for e in (errors or [])) or _is_instance(cls, types or [])
        if not match:
            return False, 0, 0
        base = min(p["initial"] * (p["rate"] ** (n - 1)), p["max"])
        hi = max(1, math.ceil(base))
        if p["jitter"] == "NONE":
            lo = hi
        elif p["jitter"] == "HALF":
            lo = max(1, math.ceil(base / 2))
        else:
            lo = 1
        return True, lo, hi

    def exact(n, draws):
        """The delay the configured backoff and jitter give for the one uniform draw the strategy made (the
        simulator owns `random`): full jitter = random(0, base), equal jitter = base/2 + random(0, base/2),
        rounded up, at least 1 s. Returns the set of acceptable integers (a float ulp may flip the ceiling), or
        None when the number of draws is not the one this reading needs."""
        base = min(p["initial"] * (p["rate"] ** (n - 1)), p["max"])
        if p["jitter"] == "NONE":
            if draws:
                return None
            x = base
        elif len(draws) != 1:
            return None
        elif p["jitter"] == "HALF":
            x = base / 2 + draws[0] * (base / 2)
        else:
            x = draws[0] * base
        return {max(1, math.ceil(x)), max(1, math.ceil(x - 1e-9)), max(1, math.ceil(x + 1e-9))}

    return {"max_attempts": p["max_attempts"], "decide": decide, "packaged": True, "max_delay": p["max"], "exact": exact}


def _is_instance(cls, types):
    from dexsim.interp import exc_class
    try:
        c = exc_class(cls)
    except KeyError:
        return False
    return any(issubclass(c, exc_class(t)) for t in types)


def expected_entries(st, model):
    """Number of function entries of a step absent mid-attempt crashes, and final outcome."""
    att = (st.get("fn") or {}).get("attempts") or [{"do": "ret"}]
    n = 1
    while n < 100:
        beh = att[min(n, len(att)) - 1]
        if beh["do"] != "raise":
            return n, "ret"
        retry, _, _ = model["decide"](beh["cls"], beh.get("msg", "boom"), n)
        if not retry:
            return n, "raise"
        n += 1
    return None, None


# --------------------------------------------------------------------------- C12
def check_c12(ix, cfg):
    out = []
    stmts = statements(cfg["program"])
    crashed_mid = defaultdict(int)
    # interrupted attempt: fn-enter whose outcome record (SUCCEED/RETRY/FAIL) was not applied in the same invocation
    for e in ix.kinds["fn-enter"]:
        if e["fn"] != "step":
            continue
        oid_ = ix.pos_id(e["pos"])
        done = oid_ is not None and any(a["i"] == e["i"] and a["s"] > e["s"] and a["action"] in ("SUCCEED", "RETRY", "FAIL")
                                        and not a.get("rejected") for a in ix.applied_for(oid_))
        if not done:
            crashed_mid[e["pos"]] += 1
    for e in ix.kinds["strategy"]:
        if e.get("be_attempt") is not None and e["attempts_made"] != e["be_attempt"] + 1:
            out.append(V("C12", "wrong-attempt-count", f"{e['pos']}: retry strategy consulted with attempts_made={e['attempts_made']} but the "
                         f"backend has recorded {e['be_attempt']} retries", pos=e["pos"], seq=e["s"]))
    for pos, st in stmts.items():
        if st["op"] != "step":
            continue
        oid = ix.pos_id(pos)
        if oid is None:
            continue
        model = strategy_model(st.get("retry"))
        app = ix.applied_for(oid)
        retries = [a for a in app if a["action"] == "RETRY" and not a.get("rejected")]
        for a in retries:
            if (a.get("delay") or 0) < 1:
                out.append(V("C12", "retry-delay-below-1", f"{pos}: RETRY recorded with delay {a.get('delay')}", pos=pos, seq=a["s"]))
        if model["max_attempts"] is not None and len(retries) > model["max_attempts"] - 1:
            out.append(V("C12", "too-many-retries", f"{pos}: {len(retries)} RETRY records but max_attempts={model['max_attempts']}",
                         pos=pos, seq=retries[-1]["s"]))
        # entries
        enters = [e for e in ix.kinds["fn-enter"] if e["pos"] == pos and e["fn"] == "step"]
        for e in enters:
            if e["attempt"] >= 2 and e.get("status") not in ("READY", "STARTED"):
                out.append(V("C12", "reattempt-before-ready", f"{pos}: attempt {e['attempt']} entered while backend status is {e.get('status')}",
                             pos=pos, seq=e["s"]))
        final = ix.timeline[oid][-1][1] if ix.timeline.get(oid) else None
        exp_n, exp_out = expected_entries(st, model)
        any_crash = any(i["outcome"] in ("crash", "raise", "hang") for i in ix.w.invocations)
        if exp_n is not None:
            if final in ("SUCCEEDED", "FAILED") and not any_crash and len(enters) != exp_n:
                out.append(V("C12", "wrong-number-of-attempts", f"{pos}: function entered {len(enters)} times, expected {exp_n} "
                             f"(final {final})", pos=pos, seq=enters[-1]["s"] if enters else 0))
            elif len(enters) > exp_n + crashed_mid[pos]:
                out.append(V("C12", "wrong-number-of-attempts", f"{pos}: function entered {len(enters)} times, expected at most {exp_n} + "
                             f"{crashed_mid[pos]} interrupted", pos=pos, seq=enters[-1]["s"]))
            if final in ("SUCCEEDED", "FAILED") and {"ret": "SUCCEEDED", "raise": "FAILED"}[exp_out] != final and not any_crash:
                out.append(V("C12", "wrong-final-status", f"{pos}: final {final}, expected {exp_out}", pos=pos, seq=0))
        # strategy decisions vs records
        strat = [s for s in ix.kinds["strategy"] if s["pos"] == pos]
        for n_ev, s_ev in enumerate(strat):
            upto = strat[n_ev + 1]["s"] if n_ev + 1 < len(strat) else float("inf")
            nxt = [a for a in app if s_ev["s"] < a["s"] < upto and a["i"] == s_ev["i"] and not a.get("rejected")
                   and a["action"] in ("RETRY", "FAIL", "SUCCEED")]
            if not nxt:
                continue
            a = nxt[0]
            if s_ev["retry"]:
                if a["action"] != "RETRY":
                    out.append(V("C12", "retry-not-recorded", f"{pos}: strategy said retry but next record is {a['action']}", pos=pos, seq=a["s"]))
                elif a.get("delay") != max(1, s_ev["delay"]):
                    out.append(V("C12", "retry-delay-mismatch", f"{pos}: strategy delay {s_ev['delay']} but RETRY recorded {a.get('delay')}",
                                 pos=pos, seq=a["s"]))
            elif a["action"] != "FAIL":
                out.append(V("C12", "decline-not-recorded", f"{pos}: strategy declined but next record is {a['action']}", pos=pos, seq=a["s"]))
            if model["packaged"] and s_ev["err"] != "StepInterruptedError":
                r, lo, hi = model["decide"](s_ev["err"], s_ev["msg"], s_ev["attempts_made"])
                if r != s_ev["retry"]:
                    out.append(V("C12", "packaged-strategy-decision", f"{pos}: packaged strategy returned retry={s_ev['retry']} for attempt "
                                 f"{s_ev['attempts_made']} ({s_ev['err']}: {s_ev['msg']}), reference says {r}", pos=pos, seq=s_ev["s"]))
                elif r and not (lo <= s_ev["delay"] <= hi):
                    out.append(V("C12", "packaged-strategy-delay", f"{pos}: packaged strategy delay {s_ev['delay']} outside [{lo},{hi}] for "
                                 f"attempt {s_ev['attempts_made']}", pos=pos, seq=s_ev["s"]))
                elif r and s_ev.get("draws") is not None:
                    ok = model["exact"](s_ev["attempts_made"], s_ev["draws"])
                    if ok is not None and s_ev["delay"] not in ok:
                        out.append(V("C12", "packaged-strategy-jitter", f"{pos}: packaged strategy delay {s_ev['delay']} for attempt "
                                     f"{s_ev['attempts_made']} with uniform draw(s) {s_ev['draws']}: the configured backoff and jitter "
                                     f"give {sorted(ok)}", pos=pos, seq=s_ev["s"]))
    return out


# --------------------------------------------------------------------------- C13
def check_c13(ix, cfg):
    from dexsim.interp import canon, mkvalue

    out = []
    stmts = statements(cfg["program"])
    for pos, st in stmts.items():
        if st["op"] != "wfcond":
            continue
        att = st["check"]["attempts"]
        decs = st["strategy"]
        init = canon(mkvalue(st.get("initial", ["int", 0])))

        norm = bool((st.get("fserdes") or {}).get("norm"))

        def ret_of(a, restored=True):
            beh = att[min(a, len(att)) - 1]
            if beh["do"] != "ret":
                return None
            v = mkvalue(beh["v"])
            if norm and restored:
                v = json.loads(json.dumps(v))  # "as restored by the configured serialization"
            return canon(v)

        checks = [e for e in ix.kinds["check-enter"] if e["pos"] == pos]
        enters = [e for e in ix.kinds["fn-enter"] if e["pos"] == pos and e["fn"] == "check"]
        oid = ix.pos_id(pos)
        for ce, fe in zip(checks, enters):
            a = fe["attempt"]  # backend retries + 1
            exp = init if a == 1 else ret_of(a - 1)
            if exp is not None and ce["state"] != exp:
                out.append(V("C13", "wrong-state", f"{pos}: poll {a} (invocation {ce['i']}) received state {json.dumps(ce['state'])[:100]}, "
                             f"expected {json.dumps(exp)[:100]}", pos=pos, seq=ce["s"]))
            if fe.get("status") in TERMINAL:
                out.append(V("C13", "polled-after-completion", f"{pos}: check function entered while backend holds {fe['status']}",
                             pos=pos, seq=fe["s"]))
            if a >= 2 and fe.get("status") not in ("READY", "STARTED"):
                out.append(V("C13", "polled-before-ready", f"{pos}: poll {a} ran while backend status is {fe.get('status')}", pos=pos, seq=fe["s"]))
        for ws in ix.kinds["wstrategy"]:
            if ws["pos"] != pos:
                continue
            fe = [e for e in enters if e["s"] < ws["s"]]
            if fe and ws["attempt"] != fe[-1]["attempt"]:
                out.append(V("C13", "wrong-poll-number", f"{pos}: strategy called with attempt {ws['attempt']} but backend says poll "
                             f"{fe[-1]['attempt']}", pos=pos, seq=ws["s"]))
            if oid is None:
                continue
            later_ws = [x["s"] for x in ix.kinds["wstrategy"] if x["pos"] == pos and x["s"] > ws["s"]]
            upto = min(later_ws) if later_ws else float("inf")
            nxt = [a for a in ix.applied_for(oid) if ws["s"] < a["s"] < upto and a["i"] == ws["i"] and not a.get("rejected")
                   and a["action"] in ("RETRY", "FAIL", "SUCCEED")]
            if ws["cont"]:
                # the call parks the poll (suspends) only after the continue decision has been recorded
                park = next((d for d in ix.deliveries.get(pos, []) if d["inv"] == ws["i"] and d["t"] == ws["t"] and d["s1"] > ws["s"]
                             and d["s1"] < upto and d["how"] == "abort" and d["cls"] in SUSPEND), None)
                if park is not None and not any(a["action"] == "RETRY" and a["s"] < park["s1"] for a in nxt):
                    out.append(V("C13", "continue-not-recorded", f"{pos}: poll {ws['attempt']} decided to continue and the call suspended "
                                 f"(seq {park['s1']}) but no RETRY record had been accepted", pos=pos, seq=park["s1"]))
            if not nxt:
                continue
            a = nxt[0]
            if ws["cont"]:
                if a["action"] != "RETRY":
                    out.append(V("C13", "continue-not-recorded", f"{pos}: strategy said continue but next record is {a['action']}", pos=pos, seq=a["s"]))
                else:
                    if (a.get("delay") or 0) < 1 or a.get("delay") != max(1, ws["delay"]):
                        out.append(V("C13", "wrong-retry-delay", f"{pos}: continue with delay {ws['delay']} recorded as {a.get('delay')}",
                                     pos=pos, seq=a["s"]))
                    if a.get("payload") is not None and ws["state"][0] != "str#":
                        pass
            else:
                if a["action"] != "SUCCEED":
                    out.append(V("C13", "stop-not-recorded", f"{pos}: strategy said stop but next record is {a['action']}", pos=pos, seq=a["s"]))
        # result = last returned state at the first stop
        first_stop = next((n + 1 for n, d in enumerate(decs) if "cont" not in d), None)
        for d in ix.deliveries.get(pos, []):
            if d["how"] == "ret" and first_stop is not None:
                exp = ret_of(first_stop)
                fails_before = any(att[min(k, len(att)) - 1]["do"] == "raise" for k in range(1, first_stop + 1))
                # the invocation that completes the condition hands the state over as the check returned it, a replay what
                # the codec restores: both are "the last returned state"
                if exp is not None and not fails_before and d["v"] != exp and d["v"] != ret_of(first_stop, restored=False):
                    out.append(V("C13", "wrong-result", f"{pos}: returned {json.dumps(d['v'])[:100]}, expected state of poll {first_stop} "
                                 f"{json.dumps(exp)[:100]}", pos=pos, seq=d["s1"]))
        for d in ix.deliveries.get(pos, []):
            from_check = any(e["pos"] == pos and e.get("outcome") == "raise" and e["i"] == d["inv"] and d["s0"] < e["s"] < d["s1"]
                             for e in ix.kinds["fn-exit"])
            # ExecutionError / ValidationError raised by the SDK itself reject the call before anything is recorded; the same
            # classes raised BY THE CHECK FUNCTION are a failed poll like any other
            if d["how"] in ("ret", "raise") and not d.get("inv_level") \
                    and (d.get("cls") not in ("ExecutionError", "ValidationError") or from_check):
                stt = ix.status_at(oid, d["s1"]) if oid else None
                if stt not in TERMINAL:
                    out.append(V("C13", "outcome-before-record", f"{pos}: the condition's {d['how']} reached user code in invocation {d['inv']} "
                                 f"while the backend holds status {stt}: a crash now would poll a finished condition again", pos=pos, seq=d["s1"]))
        if oid is not None:
            n_retry = len([a for a in ix.applied_for(oid) if a["action"] == "RETRY" and not a.get("rejected")])
            if first_stop is not None and n_retry > first_stop - 1:
                out.append(V("C13", "polled-past-stop", f"{pos}: {n_retry} continue records but strategy stops at poll {first_stop}", pos=pos, seq=0))
    return out


# --------------------------------------------------------------------------- C14
def check_c14(ix, cfg):
    from dexsim.interp import canon, mkvalue

    out = []
    w = ix.w
    stmts = statements(cfg["program"])
    ids = defaultdict(set)
    for e in ix.kinds["cb-created"]:
        ids[e["pos"]].add(e["callback_id"])
        rec = w.backend.by_name(e["pos"])
        if rec is not None and rec["CallbackDetails"]["CallbackId"] != e["callback_id"]:
            out.append(V("C14", "callback-id-not-backend-issued", f"{e['pos']}: create_callback returned {e['callback_id']} but the backend "
                         f"issued {rec['CallbackDetails']['CallbackId']}", pos=e["pos"], seq=e["s"]))
    for pos, s_ in ids.items():
        if len(s_) > 1:
            out.append(V("C14", "callback-id-changed", f"{pos}: callback ids {sorted(s_)} across invocations", pos=pos, seq=0))
    for pos, st in stmts.items():
        op = st["op"]
        if op == "callback":
            for d in ix.deliveries.get(pos, []):
                if d.get("inner"):
                    continue
                created = [e for e in ix.kinds["cb-created"] if e["pos"] == pos and d["s0"] < e["s"] < d["s1"]]
                if not created and d["how"] in ("raise",):
                    out.append(V("C14", "create-callback-raised", f"{pos}: create_callback raised {d['cls']}: {d['msg']}", pos=pos, seq=d["s1"]))
                    continue
                out.extend(_cb_outcome(ix, w, pos, pos, d, wrapped=True))
        elif op == "wfc":
            for d in ix.deliveries.get(pos, []):
                out.extend(_cb_outcome(ix, w, pos, pos + " create callback id", d, wrapped=False))
        elif op == "cbdefer":
            for d in ix.deliveries.get(pos, []):
                if d["how"] == "raise":
                    out.append(V("C14", "create-callback-raised", f"{pos}: create_callback raised {d['cls']}: {d['msg']}", pos=pos, seq=d["s1"]))
        elif op == "cbresult":
            for d in ix.deliveries.get(pos, []):
                if d.get("ref"):
                    out.extend(_cb_outcome(ix, w, pos, d["ref"], d, wrapped=True, extract=False))
        elif op == "invoke":
            oid = ix.pos_id(pos)
            starts = [a for a in ix.kinds["applied"] if a.get("name") == pos and a["type"] == "CHAINED_INVOKE" and a["action"] == "START"]
            if len(starts) > 1:
                out.append(V("C14", "invoke-sent-twice", f"{pos}: {len(starts)} CHAINED_INVOKE START records", pos=pos, seq=starts[1]["s"]))
            for a in starts[:1]:
                want = json.dumps(mkvalue(st.get("payload", ["none"])))
                if st.get("serdes") in ("payload", "both"):
                    want = "X" + want
                if a.get("payload") != want:
                    out.append(V("C14", "invoke-wrong-payload", f"{pos}: START payload {str(a.get('payload'))[:80]!r}, expected {want[:80]!r}",
                                 pos=pos, seq=a["s"]))
                if (a.get("invoke") or {}).get("FunctionName") != st.get("target", "fn-x"):
                    out.append(V("C14", "invoke-wrong-target", f"{pos}: START target {a.get('invoke')}", pos=pos, seq=a["s"]))
            sc = w.backend.ext_script(pos)
            for d in ix.deliveries.get(pos, []):
                if d["how"] == "abort":
                    if d["cls"] in SUSPEND and oid is not None and ix.hist_status(d["inv"], oid) in TERMINAL:
                        out.append(V("C14", "invoke-suspended-on-terminal", f"{pos}: suspended although history holds terminal status", pos=pos, seq=d["s1"]))
                    continue
                st_be = ix.status_at(oid, d["s1"]) if oid else None
                if d["how"] == "ret":
                    if st_be != "SUCCEEDED":
                        out.append(V("C14", "invoke-result-without-success", f"{pos}: returned while backend status {st_be}", pos=pos, seq=d["s1"]))
                    else:
                        p = sc.get("payload")
                        if p is not None and st.get("serdes") in ("result", "both"):
                            p = p[1:]
                        exp = canon(json.loads(p)) if p is not None else ["none"]
                        if d["v"] != exp:
                            out.append(V("C14", "invoke-wrong-result", f"{pos}: returned {json.dumps(d['v'])[:80]}, expected {json.dumps(exp)[:80]}",
                                         pos=pos, seq=d["s1"]))
                elif d["how"] == "raise" and not d.get("inv_level"):
                    if st_be == "SUCCEEDED":
                        out.append(V("C14", "invoke-raised-on-success", f"{pos}: raised {d['cls']}: {str(d['msg'])[:80]} although the backend "
                                     f"holds the call SUCCEEDED", pos=pos, seq=d["s1"]))
                    if d["cls"] == "CallableRuntimeError" and st_be not in ("FAILED", "TIMED_OUT", "STOPPED"):
                        out.append(V("C14", "invoke-error-without-failure", f"{pos}: raised while backend status {st_be}", pos=pos, seq=d["s1"]))
                    if st_be in ("FAILED", "TIMED_OUT", "STOPPED") and d["cls"] != "CallableRuntimeError":
                        out.append(V("C14", "invoke-wrong-error-class", f"{pos}: raised {d['cls']} for backend status {st_be}", pos=pos, seq=d["s1"]))
    return out


def _cb_outcome(ix, w, pos, cbname, d, wrapped, extract=True):
    out = []
    oid = ix.pos_id(cbname)
    sc = w.backend.ext_script(cbname)
    st_be = ix.status_at(oid, d["s1"]) if oid else None
    if d["how"] == "ret":
        v = d["v"]
        if wrapped and extract:
            # op_callback returns [callback_id, between, result]; canon -> ["list", [id, between, result]]
            try:
                v = v[1][2]
            except (IndexError, TypeError):
                v = None
        if st_be != "SUCCEEDED":
            out.append(V("C14", "callback-result-without-success", f"{pos}: result delivered while backend status {st_be}", pos=pos, seq=d["s1"]))
        else:
            p = sc.get("payload")
            exp = ["none"] if p is None else ["str", p] if len(p) <= 64 else None
            if exp is not None and v != exp:
                out.append(V("C14", "callback-wrong-result", f"{pos}: result {json.dumps(v)[:80]}, delivered payload {p!r}", pos=pos, seq=d["s1"]))
    elif d["how"] == "raise" and not d.get("inv_level") and not d.get("inner"):
        if d["cls"] == "CallbackError":
            if st_be not in ("FAILED", "TIMED_OUT", "CANCELLED", "STOPPED"):
                out.append(V("C14", "callback-error-without-failure", f"{pos}: CallbackError while backend status {st_be}", pos=pos, seq=d["s1"]))
        elif st_be in ("FAILED", "TIMED_OUT", "CANCELLED", "STOPPED") and wrapped:
            out.append(V("C14", "callback-wrong-error-class", f"{pos}: raised {d['cls']} for backend status {st_be}", pos=pos, seq=d["s1"]))
    elif d["how"] == "abort" and d["cls"] in SUSPEND and not d.get("inner"):
        if oid is not None and ix.hist_status(d["inv"], oid) in TERMINAL and wrapped:
            out.append(V("C14", "callback-suspended-on-terminal", f"{pos}: result() suspended although history holds terminal status", pos=pos, seq=d["s1"]))
        elif oid is not None and wrapped:
            # the SDK was told the terminal status by a checkpoint response earlier in this invocation, and a
            # later delivery proves that response had been merged before result() was called
            rc = [e for e in ix.kinds["cb-result-call"] if e["pos"] == pos and e["i"] == d["inv"] and d["s0"] < e["s"] < d["s1"]]
            if rc:
                told = [e for e in ix.kinds["api-end"] if e["i"] == d["inv"] and e.get("ok") and e["s"] < rc[-1]["s"]
                        and any(x[0] == oid and x[1] in TERMINAL for x in e.get("ops", []))]
                if told:
                    proof = [x for x in ix.kinds["call-ret"] + ix.kinds["call-raise"] if x["i"] == d["inv"] and x["t"] == d["t"]
                             and told[0]["s"] < x["s"] < rc[-1]["s"]]
                    if proof:
                        out.append(V("C14", "callback-suspended-after-completion-was-reported", f"{pos}: result() suspended although the "
                                     f"checkpoint response of API call {told[0]['call']} had already reported the callback terminal",
                                     pos=pos, seq=d["s1"]))
    return out


# --------------------------------------------------------------------------- C17
def _under_branch(pos):
    p = pos.split("#")[0]
    return "/b" in p


_POS_TOKEN = re.compile(r"^([a-z])(\d*)\.(\d+)t?$")


def _after(pos, q):
    """True iff statement position q follows position pos in program order (False if unordered: sibling branches,
    or one encloses the other)."""
    a = [_POS_TOKEN.match(t) for t in pos.split("#")[0].split("/")]
    b = [_POS_TOKEN.match(t) for t in q.split("#")[0].split("/")]
    for x, y in zip(a, b):
        if x is None or y is None:
            return False
        if (x.group(1), x.group(2)) != (y.group(1), y.group(2)):
            # different sub-blocks of one statement: the handler of a try runs after everything inside the tried statement
            return y.group(1) == "h" and x.group(1) != "h"
        if x.group(3) != y.group(3):
            return int(y.group(3)) > int(x.group(3))
    return False


_BRANCH_NAME = re.compile(r"^(?:parallel-branch|map-item)-(\d+)$")


def _branch_chain(pos):
    """[(map/parallel position, branch index), ...] of the branches that enclose `pos`, innermost first."""
    out = []
    p = pos.split("#")[0]
    while True:
        c = ctx_pos(p)
        if c[0] == "root":
            return out
        if c[0] == "branch":
            out.append((c[1], c[2]))
        p = c[1]


def _branch_id(ix, par_pos, index):
    """Operation id of branch `index` of the map/parallel at `par_pos` (None if it never sent a record)."""
    pid = ix.pos_id(par_pos)
    for oid, info in ix.info.items():
        if info.get("parent") == pid:
            m = _BRANCH_NAME.match(info.get("name") or "")
            if m and int(m.group(1)) == index:
                return oid
    return None


def _concurrent_done(ix, pos, done, parent):
    """True iff some operation of `done` lies in a sibling branch of a map/parallel that encloses `pos`."""
    mine = dict(_branch_chain(pos))  # parallel pos -> my branch index
    if not mine:
        return False
    par_ids = {ix.pos_id(pp): pp for pp in mine}
    for oid in done:
        cur, seen = oid, 0
        while cur and seen < 64:
            info = ix.info.get(cur)
            if info is None:
                break
            par = info.get("parent")
            if par in par_ids:
                m = _BRANCH_NAME.match(info.get("name") or "")
                if m and int(m.group(1)) != mine[par_ids[par]]:
                    return True
            cur = par
            seen += 1
    return False


def _completion_cfg(st):
    c = st.get("cfg")
    if c is None:
        return {"tol": 0, "pct": 0} if st["op"] == "parallel" else {}
    if c.get("preset"):
        return {"first_successful": {"min": 1}, "all_successful": {"tol": 0, "pct": 0}}.get(c["preset"], {})
    return {k: c[k] for k in ("min", "tol", "pct") if c.get(k) is not None}


def _possibly_orphaned(ix, cfg, pos, seq, inv):
    """Some map/parallel that encloses `pos` had its completion policy decided (strict or lenient reading) by the branch
    records accepted before `seq`: the branch the call sits in may be running as an orphan."""
    stmts = statements(cfg["program"])
    for par_pos, _ in _branch_chain(pos):
        st = stmts.get(par_pos)
        pid = ix.pos_id(par_pos)
        if not st or st["op"] not in ("parallel", "map") or pid is None:
            continue
        n = len(st["branches"]) if st["op"] == "parallel" else len(st["items"])
        cc = _completion_cfg(st)
        # what the executor of THIS invocation has seen finish so far (a branch that an earlier invocation completed counts
        # once it has been traversed again)
        s_c = f_c = 0
        for b in ix.kinds["body-exit"]:
            if b["i"] == inv and b["s"] < seq and b.get("bkind") == "branch" and b.get("parent") == par_pos:
                if b["outcome"] == "ret":
                    s_c += 1
                elif b.get("cls") not in ("SuspendExecution", "TimedSuspendExecution", "OrphanedChildException", "SimKilled"):
                    f_c += 1
        if s_c + f_c < n and (_policy_decided(cc, n, s_c, f_c, strict=True) or _policy_decided(cc, n, s_c, f_c, strict=False)):
            return True
    return False


def check_c17(ix, cfg):
    out = []
    w = ix.w
    trace = ix.trace
    by_inv = defaultdict(list)
    for n, e in enumerate(trace):
        by_inv[e["i"]].append((n, e))
    # ancestors closure of every op
    parent = {oid: info.get("parent") for oid, info in ix.info.items()}

    def closure(oid):
        res = set()
        seen = 0
        while oid and seen < 64:
            res.add(oid)
            oid = parent.get(oid)
            seen += 1
        return res

    for info in w.invocations:
        inv = info["n"]
        done = set()
        for oid, st in info["hist"].items():
            if st in TERMINAL and oid in ix.info:
                done |= closure(oid)
        evs = by_inv.get(inv, [])
        first = not done
        begins = [(e["s"], ix.pos_id(e["pos"]), e["pos"]) for _, e in evs if e["k"] == "call-begin"]
        wfc_inner = {}
        for n, e in evs:
            if e["k"] != "log-call":
                continue
            pos = e["pos"]
            # program order is undefined between sibling branches: that a log call in a branch must be EMITTED is judged only
            # if no operation that had completed lies in a sibling branch of any enclosing map/parallel (then every completed
            # operation is ordered with respect to the call: before the map/parallel, in this branch, or after it). That it
            # must be SILENT because an operation completed earlier follows it in its own program order is always judged.
            only_silence = _under_branch(pos) and not first and _concurrent_done(ix, pos, done, parent)
            nxt = None
            for m in range(n + 1, min(len(trace), n + 400)):
                if trace[m]["t"] == e["t"] and trace[m]["i"] == inv and trace[m]["k"] not in ("stall", "sdk-call", "sdk-ret"):
                    nxt = trace[m]  # (observation-only records may sit between the call and what the logger emitted)
                    break
            if nxt is None:
                continue  # the invocation was killed inside the log call: nothing to judge
            emitted = bool(nxt["k"] == "log" and nxt["msg"] == "L:" + pos)
            # (a branch resubmitted in process runs its body again: a later call-begin counts only if its position
            # follows the log call in program order)
            silent_expected = (not first) and any(s > e["s"] and oid in done and _after(pos, q) for s, oid, q in begins)
            if not silent_expected and not first:
                # a log call inside the body of a context that had itself completed (re-traversed because its
                # result was replaced by a summary) is code an earlier invocation already ran
                p_ = pos.split("#")[0]
                while True:
                    cp = ctx_pos(p_)
                    if cp[0] == "root":
                        break
                    cid = ix.pos_id(cp[1]) if cp[0] == "child" else _branch_id(ix, cp[1], cp[2])
                    if info["hist"].get(cid) in TERMINAL:
                        silent_expected = True
                        break
                    p_ = cp[1]
            if silent_expected and emitted and _possibly_orphaned(ix, cfg, pos, e["s"], inv):
                # the call was made by a branch whose map/parallel had (under one of the two readings of its completion
                # config) already been decided: user code the SDK has abandoned, and by design counted as "passed" by the
                # replay tracking (everything under a context completed in this invocation). Outside the property's quantifier
                # ("map/parallel blocks treated as units"): not judged.
                pass
            elif silent_expected and emitted:
                cls_ = "logged-during-replay"
                # known finding: the replay status is one flag per invocation; a branch that the timer thread resubmits in
                # process runs its body again from the top after the flag has moved to NEW
                for par_pos, bidx in _branch_chain(pos):
                    bpos = f"{par_pos}/b{bidx}"
                    runs = sum(1 for _, x in evs if x["k"] == "body-enter" and x.get("bkind") == "branch" and x["pos"] == bpos
                               and x["s"] < e["s"])
                    if runs >= 2:
                        cls_ = "logged-again-after-in-process-resubmission"
                out.append(V("C17", cls_, f"invocation {inv}: log call at {pos} precedes an operation already complete in "
                             f"the history but was emitted", pos=pos, seq=e["s"]))
            elif not silent_expected and not emitted and not only_silence:
                cls_ = "silent-after-replay"
                if inv == 1:
                    cls_ = "silent-in-first-invocation"
                elif first:
                    cls_ = "silent-with-no-completed-operation"
                out.append(V("C17", cls_,
                             f"invocation {inv}: log call at {pos} comes after every completed operation but was not emitted",
                             pos=pos, seq=e["s"]))
            if emitted:
                ex = nxt.get("extra") or {}
                if ex.get("executionArn") != w.backend.arn:
                    out.append(V("C17", "record-missing-arn", f"log record at {pos} lacks executionArn", pos=pos, seq=e["s"]))
                if pos.endswith("#fn"):
                    p = pos[:-3]
                    oid = ix.pos_id(p)
                    st = statements(cfg["program"]).get(p) or {}
                    if st.get("op") == "step":
                        if oid is not None and ex.get("operationId") != oid:
                            out.append(V("C17", "record-wrong-operation", f"step log at {pos} carries operationId {ex.get('operationId')}", pos=pos, seq=e["s"]))
                        if ex.get("operationName") != p:
                            out.append(V("C17", "record-wrong-operation", f"step log at {pos} carries operationName {ex.get('operationName')}", pos=pos, seq=e["s"]))
                        if "attempt" not in ex:
                            out.append(V("C17", "record-wrong-operation", f"step log at {pos} lacks attempt", pos=pos, seq=e["s"]))
                else:
                    c = ctx_pos(pos)
                    if c[0] == "child":
                        cid = ix.pos_id(c[1])
                        if cid is not None and ex.get("parentId") != cid:
                            out.append(V("C17", "record-wrong-parent", f"log at {pos} inside child {c[1]} carries parentId {ex.get('parentId')}", pos=pos, seq=e["s"]))
                    elif c[0] == "branch":
                        bid = _branch_id(ix, c[1], c[2])
                        if bid is not None and ex.get("parentId") != bid:
                            out.append(V("C17", "record-wrong-parent", f"log at {pos} inside branch {c[2]} of {c[1]} carries parentId "
                                         f"{ex.get('parentId')}", pos=pos, seq=e["s"]))
    return out


# --------------------------------------------------------------------------- C18
INVOCATION_FAMILY = {"InvocationError", "StepInterruptedError", "BotoClientError", "CheckpointError", "GetExecutionStateError"}


API_DERIVED = ("CheckpointError", "BackgroundThreadError", "GetExecutionStateError", "BotoClientError", "ClientError",
               "ConnectionError", "InvocationError")


def _malformed_error_object(err):
    bad = []
    for k in ("ErrorType", "ErrorMessage", "ErrorData"):
        if err.get(k) is not None and not isinstance(err[k], str):
            bad.append(f"{k} of type {type(err[k]).__name__}")
    st = err.get("StackTrace")
    if st is not None and not (isinstance(st, list) and all(isinstance(x, str) for x in st)):
        bad.append("StackTrace that is not a list of strings")
    extra = set(err) - {"ErrorType", "ErrorMessage", "ErrorData", "StackTrace"}
    if extra:
        bad.append(f"unknown keys {sorted(extra)}")
    return ", ".join(bad)


def _failed_on_its_own(ix, inv, info):
    """The wrapper learns of a background checkpoint failure only through a durable call of the handler thread.
    A handler that ends with its own (scripted) non-retriable exception while an asynchronous checkpoint is
    failing never observes that failure, and FAILED with the handler's own error is then the correct
    classification (the property only restricts WHEN the wrapper may raise)."""
    et = ((info.get("ret") or {}).get("Error") or {}).get("ErrorType")
    if et is None or et in API_DERIVED:
        return False
    for k in ("call-raise", "call-abort"):
        if any(e["i"] == inv and e.get("cls") in API_DERIVED for e in ix.kinds[k]):
            return False  # some durable call did observe the failure
    for k in ("fn-exit", "user-raise", "call-raise"):
        for e in ix.kinds[k]:
            if e["i"] == inv and e.get("cls") == et and (k != "fn-exit" or e.get("outcome") == "raise"):
                return True
    return False


def check_c18(ix, cfg):
    out = []
    w = ix.w
    for info in w.invocations:
        inv = info["n"]
        oc = info["outcome"]
        r = ix.inv_return.get(inv)
        if oc == "malformed":
            out.append(V("C18", "malformed-output", f"invocation {inv} returned {str(info.get('ret'))[:120]}"))
            continue
        if oc in ("crash",):
            continue
        if oc == "hang":
            fails = [e for e in ix.kinds["api-end"] if e["i"] == inv and not e.get("ok")]
            out.append(V("C18", "no-outcome-after-api-failure" if fails else "no-outcome",
                         f"invocation {inv} never produced an outcome: {info.get('hang')}", table=info.get("hang_table")))
            continue
        if oc in ("SUCCEEDED", "FAILED", "PENDING"):
            ret = info["ret"]
            keys = set(ret.keys())
            if oc == "SUCCEEDED" and (not isinstance(ret.get("Result"), str) or "Error" in keys):
                out.append(V("C18", "malformed-output", f"invocation {inv}: SUCCEEDED output {str(ret)[:120]}"))
            if oc == "FAILED" and "Result" in keys:
                out.append(V("C18", "malformed-output", f"invocation {inv}: FAILED output carries a Result"))
            if oc == "FAILED" and "Error" not in keys and w.backend.exec_record_seq is None:
                out.append(V("C18", "malformed-output", f"invocation {inv}: FAILED without Error and without a recorded execution result"))
            if oc == "FAILED" and "Error" in keys and not isinstance(ret["Error"], dict):
                out.append(V("C18", "malformed-output", f"invocation {inv}: FAILED Error is {type(ret['Error']).__name__}"))
            if oc == "FAILED" and isinstance(ret.get("Error"), dict):
                bad = _malformed_error_object(ret["Error"])
                if bad:
                    out.append(V("C18", "malformed-error-object", f"invocation {inv}: FAILED Error has {bad}"))
            if oc == "PENDING" and (keys - {"Status"}):
                out.append(V("C18", "malformed-output", f"invocation {inv}: PENDING output carries {sorted(keys)}"))
            if oc == "SUCCEEDED":
                try:
                    json.loads(ret["Result"]) if ret["Result"] != "" else None
                except (ValueError, TypeError):
                    out.append(V("C18", "malformed-output", f"invocation {inv}: Result is not JSON"))
        if oc == "raise":
            why = []
            if inv == 1 and (cfg.get("bad_event") is not None or cfg.get("bad_input")):
                why.append("malformed event")
            for e in ix.kinds["api-end"]:
                if e["i"] == inv and not e.get("ok") and e.get("err") in ERROR_CLASSES:
                    b = next((b for b in ix.kinds["api-begin"] if b["call"] == e["call"]), None)
                    if expected_for_error(e["err"], b["op"] if b else "checkpoint") == "raise":
                        why.append("retriable api error")
                elif e["i"] == inv and not e.get("ok") and e.get("err") == "stale-token":
                    pass
            for e in ix.kinds["call-raise"] + ix.kinds["user-raise"]:
                if e["i"] == inv and (e.get("inv_level") or e.get("cls") in INVOCATION_FAMILY):
                    why.append("invocation-level error")
            if info.get("exc_cls") in ("StepInterruptedError",):
                why.append("step interrupted")
            if not why:
                out.append(V("C18", "unexpected-raise", f"invocation {inv} raised {info.get('exc_cls')}: {info.get('exc_msg')}: no retriable "
                             f"checkpoint error, invocation-level error or malformed payload occurred", seq=r["s"] if r else 0,
                             exc=info.get("exc_cls")))
        fails = [e for e in ix.kinds["api-end"] if e["i"] == inv and not e.get("ok") and e.get("err") in ERROR_CLASSES]
        if fails and oc in ("SUCCEEDED", "PENDING", "FAILED", "raise"):
            f = fails[0]
            b = next((b for b in ix.kinds["api-begin"] if b["call"] == f["call"]), None)
            opname = b["op"] if b else "checkpoint"
            exp = expected_for_error(f["err"], opname)
            if oc in ("SUCCEEDED", "PENDING"):
                later_ = [x for x in ix.kinds["api-begin"] if x["i"] == inv and x["s"] > f["s"]]
                if not (b and b["n"] == 0 and opname == "checkpoint") and not _failed_after_user_code_ended(ix, inv, f) \
                        and not (_fire_and_forget_only(b) and not later_):
                    out.append(V("C18", "wrong-classification", f"invocation {inv} returned {oc} although API call {f['call']} ({opname}) "
                                 f"failed with {f['err']} (expected {exp})", seq=f["s"]))
            elif oc == "FAILED" and exp == "raise" and not _failed_on_its_own(ix, inv, info):
                out.append(V("C18", "wrong-classification", f"invocation {inv} returned FAILED for retriable error {f['err']}", seq=f["s"]))
            elif oc == "raise" and exp == "FAILED" and info.get("exc_cls") in ("CheckpointError", "BackgroundThreadError"):
                out.append(V("C18", "wrong-classification", f"invocation {inv} raised {info.get('exc_cls')} for non-retriable error {f['err']}",
                             seq=f["s"]))
        for e in ix.kinds["applied"]:
            if e["i"] == inv and isinstance(e.get("error"), dict):
                bad = _malformed_error_object(e["error"])
                if bad:
                    out.append(V("C18", "malformed-error-object", f"invocation {inv}: {e['type']} {e['action']} for {e.get('name')} "
                                 f"carries an Error with {bad}", seq=e["s"]))
        hx = next((e for e in ix.kinds["handler-exit"] if e["i"] == inv), None)
        if hx is not None and oc == "SUCCEEDED":
            # the handler returned a value: SUCCEEDED carries exactly that value as JSON; a value JSON cannot encode is FAILED
            if not hx["serialisable"]:
                out.append(V("C18", "unserialisable-result-succeeded", f"invocation {inv}: the handler returned a value that is not "
                             f"JSON-serialisable, the invocation reported SUCCEEDED with {str(info['ret'].get('Result'))[:80]}"))
            elif info["ret"].get("Result") not in ("", None) and not _same_json(info["ret"].get("Result"), hx):
                out.append(V("C18", "result-altered", f"invocation {inv}: SUCCEEDED payload {str(info['ret'].get('Result'))[:80]} does not "
                             "decode to the value the handler returned"))
        if r is not None:
            live = [n for n in r.get("live", []) if n.startswith("dex-handler")]
            if live:
                out.append(V("C18", "checkpoint-thread-alive", f"invocation {inv} returned while {live} still alive", seq=r["s"]))
            inflight = []
            ends = {e["call"] for e in ix.kinds["api-end"]}
            for b in ix.kinds["api-begin"]:
                if b["i"] == inv and b["s"] < r["s"] and b["call"] not in ends:
                    inflight.append(b["call"])
                if b["i"] == inv and b["s"] > r["s"]:
                    out.append(V("C18", "api-call-after-return", f"invocation {inv}: API call {b['call']} begun after the handler returned", seq=b["s"]))
            later_end = [e for e in ix.kinds["api-end"] if e["i"] == inv and e["s"] > r["s"]]
            if later_end:
                out.append(V("C18", "api-call-in-flight-at-return", f"invocation {inv}: API call {later_end[0]['call']} still in flight at return", seq=r["s"]))
    return out


def _same_json(text, hx):
    """The returned payload decodes to what the handler produced (its encoding is the SDK's business)."""
    from dexsim.interp import _digest
    if not isinstance(text, str):
        return False
    if len(text) == hx["size"] and _digest(text) == hx["digest"]:
        return True
    try:
        return _digest(json.dumps(json.loads(text))) == hx["digest"]
    except (ValueError, TypeError):
        return False


# --------------------------------------------------------------------------- C16
def check_c16(ix, cfg):
    out = []
    w = ix.w
    lim = cfg.get("limits") or {}
    ck = lim.get("ckpt", 256 * 1024)
    rl = lim.get("resp", 6 * 1024 * 1024 - 50)
    for e in ix.kinds["applied"]:
        if e["type"] == "CONTEXT" and e["action"] == "SUCCEED" and e["size"] > ck:
            out.append(V("C16", "oversized-checkpoint", f"CONTEXT SUCCEED for {e.get('name')} carries {e['size']} bytes > limit {ck}",
                         pos=e.get("name"), seq=e["s"]))
    # replay equality for contexts recorded with ReplayChildren
    rc_names = {e.get("name") for e in ix.kinds["applied"] if e.get("replay_children")}
    for v in check_c02(ix):
        if v.get("pos") in rc_names or any(str(v.get("pos", "")).startswith(str(n) + "/") for n in rc_names if n):
            v = dict(v)
            v["prop"] = "C16"
            v["cls"] = "replayed-" + v["cls"]
            out.append(v)
    for e in ix.kinds["fn-enter"]:
        if e.get("status") in TERMINAL:
            out.append(V("C16", "reexecuted-during-replay", f"user function of {e['pos']} re-entered while backend holds {e['status']}",
                         pos=e["pos"], seq=e["s"]))
    for e in ix.kinds["applied"]:
        if e.get("under_done"):
            out.append(V("C16", "record-sent-during-replay", f"{e['type']} {e['action']} for {e.get('name')} sent under completed context "
                         f"{e.get('under_name')}", pos=e.get("name"), seq=e["s"]))
    # a traversal that rebuilds a summarised result must come to an end
    for info in w.invocations:
        if info["outcome"] == "hang" and not any(e["i"] == info["n"] and not e.get("ok") for e in ix.kinds["api-end"]):
            if any(e["i"] == info["n"] and e.get("rc") and e.get("status") == "SUCCEEDED" for e in ix.kinds["body-enter"]):
                out.append(V("C16", "rebuild-never-finished", f"invocation {info['n']} re-traversed a summarised context and never ended: "
                             f"{info.get('hang')}", table=info.get("hang_table")))
    # items of an oversized map/parallel must still report what their branches produced
    for v in check_c09(ix, cfg):
        if v["cls"] in ("item-without-outcome", "item-wrong-result", "item-wrong-error", "raised-for-valid-input"):
            v = dict(v)
            v["prop"] = "C16"
            out.append(v)
    # handler result
    for hx in ix.kinds["handler-exit"]:
        inv = hx["i"]
        info = ix.invs.get(inv)
        r = ix.inv_return.get(inv)
        if info is None or r is None or info["outcome"] not in ("SUCCEEDED", "FAILED"):
            continue
        if not hx["serialisable"]:
            continue
        ret = info["ret"]
        recs = [e for e in ix.kinds["applied"] if e["type"] == "EXECUTION" and e["i"] == inv]
        # the limit is one of bytes on the wire: a result is certainly too large when even its most compact JSON encoding
        # (raw UTF-8) exceeds it, certainly small when its \u-escaped encoding fits; in between either treatment is right
        big = hx.get("size_min", hx["size"]) > rl
        if not big and hx["size"] > rl:
            big = bool(recs)
        if any(e["i"] == inv and not e.get("ok") for e in ix.kinds["api-end"]):
            continue
        if big:
            if info["outcome"] != "SUCCEEDED" or ret.get("Result") != "":
                out.append(V("C16", "large-result-in-response", f"handler result of {hx['size']} bytes > {rl} but invocation returned "
                             f"{info['outcome']} with payload of {len(ret.get('Result') or '')} bytes", seq=r["s"]))
            if not recs or recs[0]["s"] > r["s"] or recs[0]["action"] != "SUCCEED":
                out.append(V("C16", "large-result-not-recorded", "large handler result was not recorded as the execution result before the "
                             "invocation returned", seq=r["s"]))
            elif recs[0].get("jdigest") != hx["digest"]:
                out.append(V("C16", "large-result-altered", f"recorded execution result ({recs[0]['size']} characters) does not decode to what "
                             f"the handler produced ({hx['size']} characters)",
                             seq=r["s"]))
        else:
            if recs:
                out.append(V("C16", "small-result-recorded", "EXECUTION record sent although the result fits the response", seq=r["s"]))
            elif info["outcome"] == "SUCCEEDED" and not _same_json(ret.get("Result"), hx):
                out.append(V("C16", "result-altered", f"returned payload has {len(ret.get('Result') or '')} bytes, handler produced {hx['size']}", seq=r["s"]))
    # large error path
    for info in w.invocations:
        if info["outcome"] == "FAILED" and not any(h["i"] == info["n"] for h in ix.kinds["handler-exit"]):
            ret = info["ret"]
            r = ix.inv_return.get(info["n"])
            recs = [e for e in ix.kinds["applied"] if e["type"] == "EXECUTION" and e["i"] == info["n"]]
            if any(e["i"] == info["n"] and not e.get("ok") for e in ix.kinds["api-end"]):
                continue
            if "Error" in ret:
                size = min(len(json.dumps(ret)), len(json.dumps(ret, ensure_ascii=False).encode()))
                if size > rl:
                    out.append(V("C16", "large-error-in-response", f"FAILED response of {size} bytes exceeds the limit {rl}", seq=r["s"] if r else 0))
                if recs:
                    out.append(V("C16", "small-result-recorded", "EXECUTION FAIL record sent although the error fits the response"))
            else:
                if not recs or recs[0]["action"] != "FAIL" or (r and recs[0]["s"] > r["s"]):
                    out.append(V("C16", "large-error-not-recorded", "FAILED with empty payload but no EXECUTION FAIL record before the return"))
    return out


# --------------------------------------------------------------------------- C09
def _policy_decided(cfgc, n, succ, fail, strict):
    mn = cfgc.get("min")
    tol = cfgc.get("tol")
    pct = cfgc.get("pct")
    if succ + fail >= n:
        return True
    if succ >= (mn or n):
        return True
    if tol is None and pct is None:
        if strict or mn is None:
            return fail > 0
        return False
    if tol is not None and fail > tol:
        return True
    if pct is not None and n > 0 and (fail / n) * 100 > pct:
        return True
    return False


def check_c09(ix, cfg):
    out = []
    w = ix.w
    stmts = statements(cfg["program"])
    for pos, st in stmts.items():
        if st["op"] not in ("parallel", "map"):
            continue
        n = len(st["branches"]) if st["op"] == "parallel" else len(st["items"])
        # default config when none given: parallel -> all_successful-like CompletionConfig default of ParallelConfig; map -> CompletionConfig()
        c = st.get("cfg")
        if c is None:
            cc = {"tol": 0, "pct": 0} if st["op"] == "parallel" else {}
            conc = None
        else:
            cc = {k: c[k] for k in ("min", "tol", "pct") if c.get(k) is not None}
            conc = c.get("conc")
        ds = ix.deliveries.get(pos, [])
        # hang / odd raise
        for d in ds:
            if d["how"] == "raise" and not d.get("inv_level") and d["cls"] not in ("ExecutionError",):
                hs0 = ix.hist_status(d["inv"], ix.pos_id(pos)) if ix.pos_id(pos) else None
                if hs0 not in TERMINAL:
                    out.append(V("C09", "raised-for-valid-input", f"{pos}: {st['op']} of {n} items raised {d['cls']}: {d['msg']}", pos=pos,
                                 seq=d["s1"], n=n))
        first_ret = {}
        for d in ds:
            if d["how"] == "ret" and d["inv"] not in first_ret:
                first_ret[d["inv"]] = d
        for inv, d in first_ret.items():
            v = d["v"]
            if v[0] != "batch":
                out.append(V("C09", "not-a-batch-result", f"{pos}: returned {str(v)[:80]}", pos=pos, seq=d["s1"]))
                continue
            reason, items = v[1], v[2]
            if [it[0] for it in items] != list(range(n)):
                out.append(V("C09", "items-not-one-per-input", f"{pos}: item indexes {[it[0] for it in items]} for {n} inputs", pos=pos, seq=d["s1"]))
                continue
            hs = ix.hist_status(inv, ix.pos_id(pos)) if ix.pos_id(pos) else None
            replayed = hs in TERMINAL
            succ = sum(1 for it in items if it[1] == "SUCCEEDED")
            fail = sum(1 for it in items if it[1] == "FAILED")
            started = sum(1 for it in items if it[1] == "STARTED")
            # (5) reason consistent with statuses
            shape = ("min" if cc.get("min") is not None else "nomin") + "/" + \
                ("tol" if (cc.get("tol") is not None or cc.get("pct") is not None) else "notol") + "/" + ("fail" if fail else "nofail")
            if reason == "ALL_COMPLETED" and started:
                out.append(V("C09", "reason-inconsistent", f"{pos}: ALL_COMPLETED with {started} STARTED items (config {cc})", pos=pos, seq=d["s1"],
                             reason=reason, shape=shape))
            if reason == "MIN_SUCCESSFUL_REACHED" and (cc.get("min") is None or succ < cc["min"]):
                out.append(V("C09", "reason-inconsistent", f"{pos}: MIN_SUCCESSFUL_REACHED with {succ} successes, min {cc.get('min')}", pos=pos,
                             seq=d["s1"], reason=reason))
            if reason == "FAILURE_TOLERANCE_EXCEEDED":
                exceeded = (cc.get("tol") is not None and fail > cc["tol"]) or (cc.get("pct") is not None and n and fail / n * 100 > cc["pct"]) \
                    or (cc.get("tol") is None and cc.get("pct") is None and fail > 0)
                if not exceeded:
                    out.append(V("C09", "reason-inconsistent", f"{pos}: FAILURE_TOLERANCE_EXCEEDED with {fail} failures, config {cc}", pos=pos,
                                 seq=d["s1"], reason=reason))
            if replayed:
                continue
            # ground truth from branch body probes of this invocation (and earlier ones for branches completed earlier)
            exits = {}
            for e in ix.kinds["body-exit"]:
                if e.get("parent") == pos and e["s"] < d["s1"] and e.get("outcome") in ("ret", "raise") and e.get("cls") not in SUSPEND \
                        and e.get("cls") not in ("OrphanedChildException", "BackgroundThreadError"):
                    exits[e["index"]] = e
            for it in items:
                idx, status, res, err = it
                x = exits.get(idx)
                if status == "SUCCEEDED":
                    if x is None or x.get("outcome") != "ret":
                        out.append(V("C09", "item-without-outcome", f"{pos}: item {idx} reported SUCCEEDED but its body had not finished",
                                     pos=pos, seq=d["s1"]))
                    elif res != x["v"]:
                        out.append(V("C09", "item-wrong-result", f"{pos}: item {idx} result {json.dumps(res)[:80]} but branch produced "
                                     f"{json.dumps(x['v'])[:80]}", pos=pos, seq=d["s1"]))
                elif status == "FAILED":
                    if x is None or x.get("outcome") != "raise":
                        out.append(V("C09", "item-without-outcome", f"{pos}: item {idx} reported FAILED but its body had not failed", pos=pos, seq=d["s1"]))
                    elif err is None or err[1] != x.get("msg"):
                        out.append(V("C09", "item-wrong-error", f"{pos}: item {idx} error {err} but branch raised {x.get('cls')}: {x.get('msg')}",
                                     pos=pos, seq=d["s1"]))
            # (4a) not too early: decided under R-strict on bodies finished so far
            s_fin = sum(1 for x in exits.values() if x["outcome"] == "ret")
            f_fin = sum(1 for x in exits.values() if x["outcome"] == "raise")
            if not _policy_decided(cc, n, s_fin, f_fin, strict=True):
                out.append(V("C09", "returned-too-early", f"{pos}: returned with {s_fin} successes / {f_fin} failures of {n} finished, policy {cc} "
                             f"not decided", pos=pos, seq=d["s1"]))
        # (1) concurrency bound
        if conc:
            active = defaultdict(int)
            mx = 0
            for e in sorted(ix.kinds["body-enter"] + ix.kinds["body-exit"], key=lambda e: e["s"]):
                if e.get("parent") != pos:
                    continue
                key = e["i"]
                if e["k"] == "body-enter":
                    active[key] += 1
                    mx = max(mx, active[key])
                else:
                    active[key] -= 1
            if mx > conc:
                out.append(V("C09", "concurrency-exceeded", f"{pos}: {mx} branch bodies active at once, max_concurrency {conc}", pos=pos, seq=0))
        # (4b) not too late
        for inv, d in first_ret.items():
            hs = ix.hist_status(inv, ix.pos_id(pos)) if ix.pos_id(pos) else None
            if hs in TERMINAL:
                continue
            # decision instant: earliest seq x at which branch-context records applied so far decide the policy (R-lenient)
            recs = []
            pid = ix.pos_id(pos)
            for e in ix.kinds["applied"]:
                if e.get("parent") == pid and e["type"] == "CONTEXT" and e["action"] in ("SUCCEED", "FAIL") and e["sub"] in ("ParallelBranch", "MapIteration"):
                    recs.append(e)
            s_c = f_c = 0
            x = None
            for e in sorted(recs, key=lambda e: e["s"]):
                if e["action"] == "SUCCEED":
                    s_c += 1
                else:
                    f_c += 1
                if _policy_decided(cc, n, s_c, f_c, strict=False) and e["i"] == inv:
                    x = e
                    break
            if x is None or x["s"] > d["s1"]:
                continue
            for fe in ix.kinds["fn-enter"]:
                if fe["i"] != inv or not _is_under(fe["pos"], pos) or fe["s"] > x["s"]:
                    continue
                ex = next((q for q in ix.kinds["fn-exit"] if q["pos"] == fe["pos"] and q["n"] == fe["n"]), None)
                if ex is None or ex["s"] > d["s1"]:
                    continue
                # time the call may legitimately take after the decision: injected stalls (any thread: the done-callback, the
                # woken caller, the checkpoint thread), the round trip of the map/parallel's own completion record, the batch window
                stalled = sum(e["d"] for e in ix.kinds["stall"] if e["i"] == inv and x["s"] <= e["s"] <= d["s1"])
                slack = stalled + 2 * (cfg.get("latency") or [0, 0])[1] + ((cfg.get("batch") or {}).get("window") or 1.0)
                if ex["s"] > x["s"] and ex["vt"] - x["vt"] >= 8.0 + slack:
                    out.append(V("C09", "returned-too-late", f"{pos}: policy decided at seq {x['s']} (vt {x['vt']}) but the call returned only "
                                 f"after the long-running function of {fe['pos']} finished at vt {ex['vt']}", pos=pos, seq=d["s1"]))
                    break
    # hangs
    for info in w.invocations:
        if info["outcome"] == "hang" and not any(e["i"] == info["n"] and not e.get("ok") for e in ix.kinds["api-end"]):
            out.append(V("C09", "call-never-returned", f"invocation {info['n']}: {info.get('hang')} inside map/parallel", table=info.get("hang_table")))
    return out


# ------------------------------------------------------------- generic: unexplained exceptions
def scripted_errors(program):
    """(class, message) pairs that user code of this program raises on purpose."""
    out = set()

    def walk_fn(fn):
        for a in (fn or {}).get("attempts", []):
            if a.get("do") == "raise":
                out.add((a["cls"], a.get("msg", "boom")))

    def walk(body):
        for st in body:
            one(st)

    def one(st):
        op = st["op"]
        if op == "try":
            one(st["stmt"])
            walk(st.get("handler", []))
        elif op == "raise":
            out.add((st["cls"], st.get("msg", None)))
        elif op in ("step", "wfc"):
            walk_fn(st.get("fn"))
        elif op == "wfcond":
            walk_fn(st.get("check"))
        elif op == "callback":
            walk(st.get("between", []))
        elif op == "child":
            walk(st["body"])
        elif op == "parallel":
            for br in st["branches"]:
                walk(br["body"])
        elif op == "map":
            for b in (st["bodies"] if "bodies" in st else [st["body"]]):
                walk(b)

    walk(program["body"])
    return out


def check_unexplained_exceptions(ix, cfg, prop):
    """A durable call may raise the recorded error (CallableRuntimeError / CallbackError), an invocation-level
    error, or what user code raised on purpose. Anything else (InvalidStateError, 'dictionary changed size during
    iteration', KeyError ...) is the SDK failing, and it changes what the workflow observes."""
    out = []
    scripted = scripted_errors(cfg["program"])
    classes = {c for c, _ in scripted}
    has_odd_values = '"set"' in json.dumps(cfg["program"]) or '"obj"' in json.dumps(cfg["program"])
    for pos, ds in ix.deliveries.items():
        for d in ds:
            if d["how"] != "raise" or d.get("inv_level"):
                continue
            cls, msg = d["cls"], d.get("msg")
            if cls in ("CallableRuntimeError", "CallbackError"):
                continue
            if cls == "ExecutionError" and _serdes_fault_at(ix, d["inv"], pos):
                continue
            if (cls, msg) in scripted or ((cls, None) in scripted):
                continue
            if cls in ("ExecutionError", "SerDesError", "ValidationError") and (has_odd_values or cls in classes):
                continue
            if cls in classes and any(m is not None and msg is not None and m == msg for c, m in scripted if c == cls):
                continue
            if any(e["i"] == d["inv"] and not e.get("ok") for e in ix.kinds["api-end"]):
                continue  # after an API failure the call may surface the checkpoint error (C06/C18 judge that)
            out.append(V(prop, "unexplained-exception", f"{pos} ({d['op']}) raised {cls}: {str(msg)[:120]} in invocation {d['inv']}: neither "
                         f"the recorded outcome nor anything user code raises", pos=pos, seq=d["s1"], exc=cls))
    return out
