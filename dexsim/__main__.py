"""CLI: python -m dexsim check <id> [--tier quick|thorough] | replay <file> | run-one <id> <seed_i>"""

from __future__ import annotations

import argparse
import json
import os
import sys


def _reexec_with_hashseed():
    if os.environ.get("PYTHONHASHSEED") != "0":
        env = dict(os.environ)
        env["PYTHONHASHSEED"] = "0"
        env["PYTHONDONTWRITEBYTECODE"] = "1"
        os.execve(sys.executable, [sys.executable, "-m", "dexsim"] + sys.argv[1:], env)


def main():
    _reexec_with_hashseed()
    sys.dont_write_bytecode = True
    ap = argparse.ArgumentParser(prog="dexsim")
    sub = ap.add_subparsers(dest="cmd", required=True)
    c = sub.add_parser("check")
    c.add_argument("id")
    c.add_argument("--tier", default=os.environ.get("VERIF_TIER", "quick"))
    c.add_argument("--cases", type=int)
    c.add_argument("--wall", type=float)
    c.add_argument("--workers", type=int)
    r = sub.add_parser("replay")
    r.add_argument("path")
    r.add_argument("--trace", action="store_true")
    o = sub.add_parser("run-one")
    o.add_argument("id")
    o.add_argument("seed_i", type=int)
    o.add_argument("--tier", default="quick")
    args = ap.parse_args()
    from dexsim import runner, seams

    seams.install()
    if args.cmd == "check":
        tier = args.tier if args.tier in ("quick", "thorough") else "quick"
        seed = int(os.environ.get("VERIF_SEED", "0") or 0)
        print(f"VERIF_SEED={seed}")
        code = runner.run_check(args.id, tier, seed, workers=args.workers, max_wall=args.wall, n_cases=args.cases)
        # Everything (verdict lines, evidence, replay files) has been written and closed. Leave without the interpreter's
        # exit handlers: concurrent.futures joins the manager thread of every pool at exit, and that thread can wedge when
        # the workers of a stopped pool (wall budget reached, cases abandoned) were killed - observed once as a check that
        # had finished and never exited.
        sys.stdout.flush()
        sys.stderr.flush()
        os._exit(code)
    if args.cmd == "replay":
        with open(args.path) as f:
            doc = json.load(f)
        vs = runner.replay_cfg(doc["property"], doc["cfg"], doc.get("prelude"))
        want = doc["violation"]
        hit = runner.same_violation(vs, want)
        if args.trace:
            from dexsim import render
            render.print_trace(doc["property"], doc["cfg"])
        if hit is not None:
            print(f"VIOLATION property={doc['property']} replay={args.path}")
            print(f"  class={hit['cls']}")
            print(f"  {hit['msg']}")
            if hit.get("table"):
                for row in hit["table"]:
                    print(f"    blocked: {row}")
            sys.exit(1)
        print(f"replay of {args.path}: violation {want['cls']} NOT reproduced; got {[v['cls'] for v in vs]}")
        sys.exit(0)
    if args.cmd == "run-one":
        res = runner.run_case(args.id, args.seed_i, args.tier)
        vs = res.pop("violations")
        res.pop("sigs", None)
        print(json.dumps(res, indent=1, default=str)[:3000])
        for v in vs:
            print("VIOLATION", v["v"]["prop"], v["v"]["cls"], v["v"]["msg"])
        sys.exit(1 if vs else 0)


if __name__ == "__main__":
    main()
