"""Seams: clone CPython's concurrent.futures onto simulated primitives and rebind the
module-level names through which the SDK reaches threads, queues, clocks and randomness.

Nothing in /repo is edited; the SDK package is imported from the working tree
(DEXSIM_SDK_SRC or /repo/src) and only module globals are rebound.
"""

from __future__ import annotations

import importlib
import logging
import os
import sys
import types

from dexsim import simqueue, simthreading, simtime

SDK = "aws_durable_execution_sdk_python"
_installed = False
futures_base = None
futures_thread = None


def sdk_src() -> str:
    return os.environ.get("DEXSIM_SDK_SRC") or "/repo/src"


class _OsNS:
    """`os` stand-in for the cloned thread.py: no at-fork handlers, fixed cpu count."""

    @staticmethod
    def cpu_count():
        return 4


def _clone_futures():
    global futures_base, futures_thread
    if sys.version_info[:2] != (3, 12):
        raise RuntimeError(f"futures clone is written for CPython 3.12, found {sys.version}")
    import concurrent.futures._base as rb
    import concurrent.futures.thread as rt

    src_b = open(rb.__file__, encoding="utf-8").read()
    src_t = open(rt.__file__, encoding="utf-8").read()

    def patch(src, pairs):
        for old, new in pairs:
            if src.count(old) != 1:
                raise RuntimeError(f"futures clone: expected exactly one {old!r}")
            src = src.replace(old, new)
        return src

    src_b = patch(src_b, [
        ("\nimport threading\n", "\nfrom dexsim import simthreading as threading\n"),
        ("\nimport time\n", "\nfrom dexsim import simtime as time\n"),
    ])
    src_t = patch(src_t, [
        ("\nfrom concurrent.futures import _base\n", "\nfrom dexsim.seams import futures_base as _base\n"),
        ("\nimport queue\n", "\nfrom dexsim import simqueue as queue\n"),
        ("\nimport threading\n", "\nfrom dexsim import simthreading as threading\n"),
        ("\nimport os\n", "\nfrom dexsim.seams import _OsNS as os\n"),
        ("_global_shutdown_lock = threading.Lock()", "_global_shutdown_lock = _InertLock()"),
    ])
    src_t = src_t.replace(
        "\nimport itertools\n",
        "\nimport itertools\n\nclass _InertLock:\n    def __enter__(self):\n        return True\n"
        "    def __exit__(self, *a):\n        return None\n    def acquire(self):\n        return True\n"
        "    def release(self):\n        return None\n    def _at_fork_reinit(self):\n        return None\n",
        1,
    )
    mb = types.ModuleType("dexsim._fut_base")
    mb.__file__ = rb.__file__
    exec(compile(src_b, rb.__file__, "exec"), mb.__dict__)
    mb.LOGGER = logging.getLogger("dexsim.futures")
    mb.LOGGER.disabled = True
    futures_base = mb
    mt = types.ModuleType("dexsim._fut_thread")
    mt.__file__ = rt.__file__
    exec(compile(src_t, rt.__file__, "exec"), mt.__dict__)
    futures_thread = mt
    sys.modules["dexsim._fut_base"] = mb
    sys.modules["dexsim._fut_thread"] = mt


def install():
    """Import the SDK from the working tree and rebind its seams (idempotent)."""
    global _installed
    if _installed:
        return
    src = sdk_src()
    if src not in sys.path:
        sys.path.insert(0, src)
    for name in list(sys.modules):
        if name == SDK or name.startswith(SDK + "."):
            mod = sys.modules[name]
            f = getattr(mod, "__file__", "") or ""
            if not f.startswith(src):
                raise RuntimeError(f"{name} already imported from {f}, expected {src}")
    _clone_futures()
    m = importlib.import_module
    state = m(f"{SDK}.state")
    thr = m(f"{SDK}.threading")
    execu = m(f"{SDK}.execution")
    cexec = m(f"{SDK}.concurrency.executor")
    cmod = m(f"{SDK}.concurrency.models")
    exc = m(f"{SDK}.exceptions")
    susp = m(f"{SDK}.suspend")
    lsvc = m(f"{SDK}.lambda_service")
    cfg = m(f"{SDK}.config")
    for mod in (state, thr, execu, cexec, cmod, exc, susp, lsvc, cfg):
        f = mod.__file__ or ""
        if not f.startswith(src):
            raise RuntimeError(f"{mod.__name__} imported from {f}, expected under {src}")

    def rebind(mod, name, value):
        if not hasattr(mod, name):
            raise RuntimeError(f"seam {mod.__name__}.{name} no longer exists")
        setattr(mod, name, value)

    rebind(state, "queue", simqueue)
    rebind(state, "threading", simthreading)
    rebind(state, "time", simtime)
    rebind(state, "Lock", simthreading.Lock)
    rebind(thr, "Event", simthreading.Event)
    rebind(thr, "Lock", simthreading.Lock)
    rebind(execu, "ThreadPoolExecutor", futures_thread.ThreadPoolExecutor)
    rebind(cexec, "threading", simthreading)
    rebind(cexec, "time", simtime)
    rebind(cexec, "ThreadPoolExecutor", futures_thread.ThreadPoolExecutor)
    rebind(cmod, "threading", simthreading)
    rebind(cmod, "time", simtime)
    rebind(exc, "time", simtime)
    rebind(susp, "datetime", simtime.datetime_ns)
    rebind(lsvc, "datetime", simtime.datetime_ns)
    rebind(cfg, "random", simtime.random_ns)
    lg = logging.getLogger(SDK)
    lg.setLevel(logging.CRITICAL + 10)
    lg.propagate = False
    lg.disabled = True
    for name in list(logging.root.manager.loggerDict):
        if name.startswith(SDK):
            logging.getLogger(name).disabled = True
    _prev_hook = sys.unraisablehook

    def _hook(unraisable):
        from dexsim.sim import SimKilled
        if isinstance(unraisable.exc_value, SimKilled):
            return
        _prev_hook(unraisable)

    sys.unraisablehook = _hook
    _installed = True


def sdk(name: str):
    install()
    return importlib.import_module(f"{SDK}.{name}" if name else SDK)
