"""Per-property check definitions: workload profile, fault plans, oracle, non-triviality
rule and reach probes. See DESIGN.md section 8."""

from __future__ import annotations

import random

from dexsim import gen, oracles
from dexsim.backend import TERMINAL
from dexsim.runner import H, gen_fault_plan

COMMON_ASSUMPTIONS = [
    "A-backend: reference backend model of the durable-execution service (DESIGN.md 3.1): RETRY increments Attempt, "
    "PENDING->READY exactly at NextAttemptTimestamp, START allowed on absent or READY, batches apply atomically in order, "
    "responses carry every operation changed since the presented token",
    "checkpoint error classification follows the rule the code documents and the test-suite pins (4xx except 429 / invalid token => Lambda retry)",
    "computation takes zero virtual time; interleavings that need CPU time are reached through stall faults and line pre-emption",
    "atomicity granularity is one source line of SDK code (sys.settrace) at best, otherwise one synchronisation operation",
    "one invocation at a time; leftover threads of a returned invocation are drained for a bounded virtual time, then frozen",
    "trusted base: simulated primitives, backend model, program interpreter, CPython",
]


def amo_positions(program):
    out = set()

    def walk(body, prefix):
        for n, st in enumerate(body):
            pos = f"{prefix}.{n}"
            one(st, pos)

    def one(st, pos):
        op = st["op"]
        if op == "try":
            one(st["stmt"], pos + "t")
            walk(st.get("handler", []), pos + "/h")
        elif op == "step" and st.get("sem") == "amo":
            out.add(pos)
        elif op == "callback":
            walk(st.get("between", []), pos + "/w")
        elif op == "child":
            walk(st["body"], pos + "/c")
        elif op == "parallel":
            for b, br in enumerate(st["branches"]):
                walk(br["body"], f"{pos}/b{b}")
        elif op == "map":
            bodies = st["bodies"] if "bodies" in st else [st["body"]] * len(st["items"])
            for b, body in enumerate(bodies):
                walk(body, f"{pos}/b{b}")

    walk(program["body"], "r")
    return out


class Check:
    component = None
    level = "exploration"
    rule = ""
    assumptions = COMMON_ASSUMPTIONS
    base_profile = {}
    quick_cases = 400
    thorough_cases = 6000
    quick_wall = 100
    thorough_wall = 780
    faults_quick = 4
    faults_thorough = 8

    def __init__(self, pid):
        self.id = pid

    def profile(self, tier):
        p = dict(self.base_profile)
        p["tier"] = tier
        return p

    def cases(self, tier):
        return self.quick_cases if tier == "quick" else self.thorough_cases

    def wall(self, tier):
        return self.quick_wall if tier == "quick" else self.thorough_wall

    def min_budget(self, tier):
        return 150 if tier == "quick" else 300

    def make_cfg(self, seed_i, prof):
        program, ext = gen.gen_program(random.Random(H(seed_i, "prog")), prof)
        knobs = gen.gen_knobs(random.Random(H(seed_i, "knobs")), prof)
        sched = gen.gen_sched(random.Random(H(seed_i, "sched")), prof)
        cfg = {"program": program, "externals": ext, "seed": seed_i % (1 << 31), "sched": sched, "faults": [],
               "max_inv": prof.get("max_inv", 60)}
        cfg.update(knobs)
        self.tune(cfg, prof, random.Random(H(seed_i, "tune")))
        return cfg

    def tune(self, cfg, prof, rng):
        pass

    def fault_plans(self, rng, st, prof, tier, cfg, w):
        n = self.faults_quick if tier == "quick" else self.faults_thorough
        return [p for p in (gen_fault_plan(rng, st, prof) for _ in range(n)) if p]

    def oracle(self, ix, cfg, golden):
        raise NotImplementedError

    def nontrivial(self, w, ix, cfg):
        return len(w.invocations) > 1

    def reach(self, w, ix, cfg):
        return {}

    def required_reach(self, tier):
        return []

    def golden_info(self, w, ix):
        return {}


def replayed_terminal(w):
    """Number of (invocation, operation) pairs where a later invocation found a terminal op."""
    n = 0
    for i in w.invocations[1:]:
        n += sum(1 for s in i["hist"].values() if s in TERMINAL)
    return n


def response_page_fetches(w):
    """API calls of the fault-free run that fetched a further page of a checkpoint RESPONSE (a get-state call made by the
    background thread after a checkpoint call of the same invocation) - a rare position for an API error."""
    seen_ckpt = set()
    out = []
    for e in w.trace:
        if e["k"] == "api-begin":
            if e["op"] == "checkpoint":
                seen_ckpt.add(e["i"])
            elif e["op"] == "get" and e["i"] in seen_ckpt:
                out.append(e["call"])
    return out


def add_boundary_result(cfg, rng, p=0.9):
    """With a scaled checkpoint limit in force, one child context returns a payload of exactly limit-1 / limit / limit+1
    serialised characters (a str of n characters serialises to n + 2)."""
    ck = (cfg.get("limits") or {}).get("ckpt")
    if not ck or ck < 10 or rng.random() >= p:
        return
    sts = [st for st in oracles.statements(cfg["program"]).values() if st["op"] == "child"]
    if sts:
        rng.choice(sts)["ret"] = ["big", ck - 2 + rng.choice([-1, 0, 0, 1])]


def add_flaky_serdes(cfg, rng, p, inv_err_p=0.0):
    """User-supplied serialisers are user code too: with probability p, 1-3 step / wait_for_condition / child / callback
    statements get a custom SerDes (around an 'external store') whose k-th serialize or deserialize call fails."""
    if rng.random() >= p:
        return
    sts = [st for st in oracles.statements(cfg["program"]).values() if st["op"] in ("step", "wfcond", "child", "callback", "invoke")]
    sts += [st for st in sts if st["op"] == "wfcond"] * 2  # three operation kinds share the step executor, one does not
    picked = []
    for st in rng.sample(sts, min(len(sts), rng.choice([1, 1, 2, 3]))):
        if any(st is x for x in picked):
            continue
        picked.append(st)
        if st["op"] == "invoke":
            # only the payload is encoded by the user's SerDes; the call fails before anything is recorded, user code may
            # catch that and carry on
            st["fserdes"] = {"ser": rng.choice([[1], [1], [2], [1, 2]]), "de": []}
            if rng.random() < 0.7:
                inner = dict(st)
                st.clear()
                st.update({"op": "try", "stmt": inner, "catch": ["Exception"], "handler": []})
            continue
        st["fserdes"] = {"ser": rng.choice([[], [], [1], [2], [1, 2], [3]]),
                         "de": rng.choice([[], [1], [1], [2], [2], [3], [1, 2], [2, 3], [4], [1, 3]])}
        if rng.random() < 0.4:
            # the k-th decode of the recorded outcome of the already completed operation fails (a replay that cannot read
            # what an earlier invocation stored)
            st["fserdes"] = {"ser": [], "de": [], "det": rng.choice([[1], [1], [2], [1, 2]])}
        if inv_err_p and rng.random() < inv_err_p:
            st["fserdes"]["cls"] = "InvocationError"
    # the SerDes of a map/parallel batch result fails to serialise: the map/parallel itself completes with FAIL
    for st in oracles.statements(cfg["program"]).values():
        if st["op"] in ("parallel", "map") and rng.random() < 0.3:
            st["cfg"] = dict(st.get("cfg") or {})
            st["cfg"]["serdes"] = {"tag": "B", "ser": rng.choice([[1], [1], [2]]), "de": []}
    # A transient SerDes failure makes a call raise in one invocation and not in the next. A try handler that runs durable
    # operations would then make the WORKFLOW non-deterministic (operation ids shift): such handlers are emptied.
    import json as _json

    def walk(body):
        for st in body:
            if st["op"] == "try":
                if '"fserdes"' in _json.dumps(st["stmt"]) or '"ser":' in _json.dumps(st["stmt"]):
                    st["handler"] = []
                walk([st["stmt"]])
                walk(st.get("handler", []))
            elif st["op"] == "child":
                walk(st["body"])
            elif st["op"] == "callback":
                walk(st.get("between", []))
            elif st["op"] == "parallel":
                for b in st["branches"]:
                    walk(b["body"])
            elif st["op"] == "map":
                for b in (st["bodies"] if "bodies" in st else [st["body"]]):
                    walk(b)

    walk(cfg["program"]["body"])


class C01(Check):
    rule = ("case = (generated program, external script, knobs, schedule, fault plan); one fault-free run plus crash/suspension "
            "variants per seed; non-trivial iff a later invocation found >=1 terminal operation in its history; distinct by "
            "hash(program, fault plan, per-invocation outcome + history status vector + switch count)")
    base_profile = {"amo_p": 0.1}

    def tune(self, cfg, prof, rng):
        add_flaky_serdes(cfg, rng, 0.15)  # a failing user SerDes may fail the call, it must not make anything run again
        add_boundary_result(cfg, rng)

    def oracle(self, ix, cfg, golden):
        return oracles.check_c01(ix) + oracles.check_unexplained_exceptions(ix, cfg, "C01")

    def nontrivial(self, w, ix, cfg):
        return replayed_terminal(w) > 0

    def reach(self, w, ix, cfg):
        r = {}
        for i in w.invocations[1:]:
            for name, s in i["hist_names"].items():
                if s in TERMINAL:
                    r["replayed-terminal"] = r.get("replayed-terminal", 0) + 1
        if any(i["outcome"] == "crash" for i in w.invocations):
            r["crashed-invocation"] = 1
        if any((b.get("first_page") or 0) < b.get("n_hist", 0) for b in ix.kinds["inv-begin"]):
            r["multi-page-history"] = 1
        if any(e.get("rc") and e.get("status") == "SUCCEEDED" for e in ix.kinds["body-enter"]):
            r["replay-children-traversal"] = 1
        return r

    def required_reach(self, tier):
        return ["replayed-terminal", "crashed-invocation", "multi-page-history", "crash:api-lost-ack"]


class C02(Check):
    needs_golden = True
    rule = ("deterministic programs (no at-most-once steps, no completion-order dependent map/parallel config); per-position "
            "delivery log compared across invocations and final outcome compared with the fault-free run; non-trivial iff some "
            "position was delivered in >=2 invocations")
    base_profile = {"amo_p": 0.0, "early_exit": False, "rich": True}

    def tune(self, cfg, prof, rng):
        add_boundary_result(cfg, rng)

    def oracle(self, ix, cfg, golden):
        vs = oracles.check_c02(ix) + oracles.check_unexplained_exceptions(ix, cfg, "C02")
        if cfg.get("faults"):
            if golden is None:
                from dexsim.driver import run_execution
                g = dict(cfg)
                g["faults"] = []
                g.pop("choices", None)
                gf = oracles.final_outcome(run_execution(g))
            else:
                gf = tuple(golden["final"])
            mine = oracles.final_outcome(ix.w)
            if mine[0] in ("SUCCEEDED", "FAILED") and gf[0] in ("SUCCEEDED", "FAILED") and tuple(mine) != tuple(gf):
                cls = "final-outcome-changed"
                # known finding KF-C02-wfcond-exception-class: only for programs in which a wait_for_condition check
                # function raises, and only if the outcomes are equal once exception class names are blanked
                import json as _json
                has_failing_check = any(st["op"] == "wfcond" and any(a["do"] == "raise" for a in st["check"]["attempts"])
                                        for st in oracles.statements(cfg["program"]).values())
                if has_failing_check and mine[0] == gf[0]:
                    def blank(t):
                        s_ = _json.dumps(t)
                        for name in sorted(gen.USER_ERRS + gen.SDK_ERRS + ["CallableRuntimeError"], key=len, reverse=True):
                            s_ = s_.replace(name, "*")
                        return s_
                    if blank(list(mine)) == blank(list(gf)):
                        cls = "final-outcome-changed-wfcond-exception-class"
                vs.append(oracles.V("C02", cls, f"fault-free run ended {str(gf)[:200]} but with faults "
                                    f"{cfg['faults']} it ended {str(mine)[:200]}"))
        return vs

    def nontrivial(self, w, ix, cfg):
        for ds in ix.deliveries.values():
            if len({d["inv"] for d in ds if d["how"] != "abort"}) >= 2:
                return True
        return False

    def reach(self, w, ix, cfg):
        r = {}
        if any(d["how"] == "raise" and len(ds) > 1 for ds in ix.deliveries.values() for d in ds):
            r["error-replayed"] = 1
        if ix.kinds["caught"]:
            r["user-try-caught"] = 1
        return r

    def required_reach(self, tier):
        return ["error-replayed", "user-try-caught"]


class C03(Check):
    rule = ("C01 workload with API latency > 0 and stalls; event-order oracle (sequence numbers only); non-trivial iff >=1 API "
            "call was in flight while another thread ran")
    base_profile = {"amo_p": 0.15, "fault_kinds": ["crash-api", "crash-fn", "apierr", "apierr", "spurious"]}

    def tune(self, cfg, prof, rng):
        cfg["latency"] = rng.choice([[0.01, 0.3], [0.05, 1.5], [0.5, 4.0]])
        if cfg["sched"].get("policy") == "walk":
            cfg["sched"]["stall_p"] = rng.choice([0.005, 0.02, 0.05])

    def oracle(self, ix, cfg, golden):
        return oracles.check_c03(ix)

    def nontrivial(self, w, ix, cfg):
        begins = {e["call"]: e for e in ix.kinds["api-begin"]}
        for e in ix.kinds["api-end"]:
            b = begins.get(e["call"])
            if b is not None and e["s"] - b["s"] > 2:
                return True
        return False

    def reach(self, w, ix, cfg):
        r = {}
        by_call = {}
        for e in ix.kinds["applied"]:
            by_call.setdefault(e["call"], []).append(e)
        for evs in by_call.values():
            if len(evs) >= 2:
                r["batch-of-2+"] = r.get("batch-of-2+", 0) + 1
        if any(x["outcome"] == "PENDING" for x in ix.inv_return.values()):
            r["pending-return"] = 1
        return r

    def required_reach(self, tier):
        return ["batch-of-2+", "pending-return"]


class C04(Check):
    level = "fault_enumeration"
    rule = ("programs dominated by at-most-once steps; for every attempt of every such step in the fault-free run, every crash "
            "site between 'START handed over' and 'outcome applied' is enumerated (API call before/after apply, function "
            "entry/inside/exit) and every API call is failed once with a retriable error class (plain and applied-then-error); "
            "API latency > 0 and stalls so that a START can be queued behind a call in flight; non-trivial iff an invocation died "
            "(crash or failed call) in a program with at-most-once steps")
    base_profile = {"amo_p": 0.8, "weights": {"step": 10, "parallel": 3, "map": 1, "child": 1, "callback": 0, "wfc": 0,
                                              "invoke": 0, "wfcond": 0, "wait": 1, "log": 0},
                    "swarm": False, "fail_p": 0.6, "max_ops": 8, "top_hi": 4}
    quick_cases = 250

    def tune(self, cfg, prof, rng):
        if rng.random() < 0.6:
            cfg["latency"] = rng.choice([[0.01, 0.3], [0.05, 1.5], [0.5, 4.0]])
        if cfg["sched"].get("policy") == "walk" and rng.random() < 0.5:
            cfg["sched"]["stall_p"] = rng.choice([0.005, 0.02, 0.05])
        add_flaky_serdes(cfg, rng, 0.2)  # a recorded outcome that cannot be decoded must not make the function run again
        # how the function is handed to the SDK and which class it raises are dimensions too: more @durable_step-decorated
        # steps, and TypeError (the class that binding errors share with errors inside the body) among the failures
        for st in oracles.statements(cfg["program"]).values():
            if st["op"] == "step" and "fserdes" not in st:
                if rng.random() < 0.25:
                    st["deco"] = True
                for a_ in (st.get("fn") or {}).get("attempts") or []:
                    if a_.get("do") == "raise" and a_.get("cls") in gen.USER_ERRS and rng.random() < 0.15:
                        a_["cls"] = "TypeError"

    def fault_plans(self, rng, st, prof, tier, cfg, w):
        plans = []
        amo = amo_positions(cfg["program"])
        fn_ns = [e["n"] for e in w.trace if e["k"] == "fn-enter" and e["pos"] in amo]
        for n in fn_ns:
            for ph in ("entry", "inside", "exit"):
                plans.append([{"kind": "crash", "at": "fn", "n": n, "phase": ph}])
        for k in range(1, w.api_calls + 1):
            for ph in ("before", "after"):
                plans.append([{"kind": "crash", "at": "api", "call": k, "phase": ph}])
            # an invocation also dies when a checkpoint call fails: the START of an attempt may be queued behind the failing call
            plans.append([{"kind": "apierr", "call": k, "err": rng.choice(["500", "503", "429", "conn", "400"]),
                           "applied": rng.random() < 0.3}])
        cap = 40 if tier == "quick" else 400
        if len(plans) > cap:
            rng.shuffle(plans)
            plans = plans[:cap]
        # the sandbox dies inside the same step twice in a row: the attempt that follows an interruption is interrupted too
        # (the function entered next after the first crash is that step's next attempt)
        for n in rng.sample(fn_ns, min(3 if tier == "quick" else 12, len(fn_ns))):
            plans.append([{"kind": "crash", "at": "fn", "n": n, "phase": rng.choice(["entry", "inside", "exit"])},
                          {"kind": "crash", "at": "fn", "n": n + 1, "phase": rng.choice(["entry", "inside", "exit"])}])
        return plans

    def oracle(self, ix, cfg, golden):
        return oracles.check_c04(ix, amo_positions(cfg["program"]), cfg["program"])

    def nontrivial(self, w, ix, cfg):
        return any(i["outcome"] in ("crash", "raise") for i in w.invocations) and bool(amo_positions(cfg["program"]))

    def reach(self, w, ix, cfg):
        r = {}
        amo = amo_positions(cfg["program"])
        for e in ix.kinds["fn-enter"]:
            if e["pos"] in amo:
                r["amo-attempt-1" if e["attempt"] == 1 else "amo-attempt-2+"] = 1
        for i in w.invocations[1:]:
            for name, s in i["hist_names"].items():
                if name in amo and s in ("STARTED", "READY"):
                    r["amo-%s-on-replay" % s] = 1
        return r

    def required_reach(self, tier):
        return ["amo-attempt-1", "amo-attempt-2+", "amo-STARTED-on-replay", "amo-READY-on-replay", "crash:fn-inside"]


class C06(Check):
    level = "fault_enumeration"
    rule = ("for each sampled (program, schedule) the fault-free run counts its API calls; the check then fails call k for every "
            "k with a sampled error class (all classes in thorough), plain and applied-then-error; non-trivial iff the failing call "
            "carried >=1 update")
    base_profile = {"amo_p": 0.35, "max_ops": 10, "weights": {"parallel": 4, "map": 2}, "lines_p": 0.5, "cbdefer_p": 0.35}
    quick_cases = 250

    def tune(self, cfg, prof, rng):
        if cfg["sched"].get("policy") == "walk":
            cfg["sched"]["stall_p"] = rng.choice([0.0, 0.01, 0.04])
        cfg["stop_on_raise"] = False

    def fault_plans(self, rng, st, prof, tier, cfg, w):
        classes = ["500", "503", "429", "400", "400tok", "403", "404", "conn"]
        plans = []
        for k in range(1, w.api_calls + 1):
            cl = classes if tier == "thorough" else rng.sample(classes, 2)
            for c in cl:
                plans.append([{"kind": "apierr", "call": k, "err": c, "applied": rng.random() < 0.25}])
        cap = 20 if tier == "quick" else 300
        if len(plans) > cap:
            rng.shuffle(plans)
            plans = plans[:cap]
        rpf = response_page_fetches(w)
        for k in rng.sample(rpf, min(2, len(rpf))):
            plans.append([{"kind": "apierr", "call": k, "err": rng.choice(classes), "applied": False}])
        if w.api_calls:
            # a call that stays in flight for a long time (client-side retries of read timeouts) and then fails
            k = rng.randrange(1, w.api_calls + 1)
            plans.append([{"kind": "slow", "call": k, "s": rng.choice([20.0, 61.0, 90.0, 400.0])},
                          {"kind": "apierr", "call": k, "err": rng.choice(classes), "applied": False}])
        # the calls that carry the START of a step attempt in a later invocation (a retry attempt found READY on replay)
        started, starts, amo_starts = set(), [], []
        amo = amo_positions(cfg["program"])
        for e in w.trace:
            if e["k"] == "api-begin":
                for u in e.get("kinds") or []:
                    if u[0] == "STEP" and u[1] == "START":
                        if u[2] in started:  # START of attempt >= 2 of that step
                            (amo_starts if u[3] in amo else starts).append(e["call"])
                        started.add(u[2])
        for k in rng.sample(amo_starts, min(2, len(amo_starts))) + rng.sample(starts, min(1, len(starts))):
            plans.append([{"kind": "apierr", "call": k, "err": rng.choice(classes), "applied": False}])
        return plans

    def oracle(self, ix, cfg, golden):
        return oracles.check_c06(ix, amo_positions(cfg["program"]))

    def nontrivial(self, w, ix, cfg):
        begins = {e["call"]: e for e in ix.kinds["api-begin"]}
        return any(not e.get("ok") and begins.get(e["call"], {}).get("n", 0) > 0 for e in ix.kinds["api-end"])

    def reach(self, w, ix, cfg):
        r = {}
        for e in ix.kinds["api-end"]:
            if not e.get("ok") and e.get("err"):
                b = next((b for b in ix.kinds["api-begin"] if b["call"] == e["call"]), None)
                r["failed-call"] = r.get("failed-call", 0) + 1
                if b and b["n"] == 0:
                    r["failed-empty-checkpoint"] = 1
                if b and b["op"] == "get":
                    r["failed-get-state"] = 1
                    if any(x["op"] == "checkpoint" and x["i"] == b["i"] and x["s"] < b["s"] for x in ix.kinds["api-begin"]):
                        r["failed-response-page-fetch"] = 1
                # was some branch alive?
                if any(x["i"] == e["i"] and x.get("bkind") == "branch" for x in ix.kinds["body-enter"]):
                    r["failure-with-branches"] = 1
        for i in w.invocations:
            if i["outcome"] == "raise":
                r["invocation-raised"] = 1
            if i["outcome"] == "FAILED":
                r["invocation-failed"] = 1
        return r

    def required_reach(self, tier):
        return ["failed-call", "failure-with-branches", "invocation-raised", "invocation-failed"]


class C07(Check):
    rule = ("programs mixing waits, retries, callbacks, invokes, wait_for_condition at top level and in nested map/parallel; "
            "soundness checked at every PENDING return, liveness as termination within a bounded number of invocations once "
            "faults stop; non-trivial iff >=1 PENDING return")
    base_profile = {"weights": {"wait": 4, "callback": 2, "wfc": 2, "invoke": 2, "wfcond": 2, "parallel": 4, "map": 2, "step": 4},
                    "fault_kinds": ["crash-api", "crash-fn", "crash-step", "spurious", "spurious", "clock-jump", "clock-jump"],
                    "blocks": [0, 0, 0.05, 0.5, 2.0, 8.0], "try_p": 0.4, "cfg_p": 0.8, "fail_p": 0.4, "amo_p": 0.3, "lines_p": 0.6}

    @staticmethod
    def invocation_bound(cfg):
        """Upper bound on the invocations a terminating execution may need: every operation can park the
        execution once, plus once per retry / poll it may record; x3 for wake-ups that find a sibling still
        parked, +2 per injected fault."""
        units = 0
        for st in oracles.statements(cfg["program"]).values():
            units += 1
            if st["op"] in ("step", "wfc"):
                m = oracles.strategy_model(st.get("retry"))
                units += (m["max_attempts"] or 6) - 1
            elif st["op"] == "wfcond":
                units += len(st["strategy"])
        return 3 * units + 5 + 2 * len(cfg.get("faults", []))

    def tune(self, cfg, prof, rng):
        add_flaky_serdes(cfg, rng, 0.15)

    def oracle(self, ix, cfg, golden):
        return oracles.check_c07(ix, self.invocation_bound(cfg))

    def nontrivial(self, w, ix, cfg):
        return any(i["outcome"] == "PENDING" for i in w.invocations)

    def reach(self, w, ix, cfg):
        r = {}
        for inv, ret in ix.inv_return.items():
            if ret["outcome"] != "PENDING":
                continue
            kinds = set()
            for pos, ds in ix.deliveries.items():
                for d in ds:
                    if d["inv"] == inv and d["how"] == "abort" and d["op"] in oracles.LEAF_OPS and oracles.ctx_pos(pos)[0] == "branch":
                        kinds.add("timer" if d["cls"] == "TimedSuspendExecution" else "event")
            if kinds == {"timer", "event"}:
                r["pending-timer-and-event-branches"] = 1
            if kinds:
                r["pending-from-branch"] = 1
        for i in w.invocations[1:]:
            if "PENDING" in i["hist"].values():
                r["pending-step-on-replay"] = 1
            if i["why"] == "spurious":
                r["spurious-wakeup"] = 1
        # in-process resubmission: a branch body entered twice in one invocation
        seen = set()
        for e in ix.kinds["body-enter"]:
            if e.get("bkind") == "branch":
                key = (e["i"], e["pos"])
                if key in seen:
                    r["in-process-resubmission"] = 1
                seen.add(key)
        return r

    def required_reach(self, tier):
        return ["pending-from-branch", "in-process-resubmission", "spurious-wakeup"]


class C08(Check):
    needs_golden = True
    rule = ("nested child/map/parallel programs; the same program is run under several schedules and crash plans and all update "
            "streams are checked together: path->Id is a function, injective, ParentId = Id(enclosing context); non-trivial iff "
            "depth >=2 with >=2 sibling branches observed in >=2 invocations")
    base_profile = {"weights": {"child": 4, "parallel": 4, "map": 3, "step": 5, "wait": 3, "wfc": 1, "callback": 1, "invoke": 2},
                    "max_depth": 3, "max_ops": 22, "fail_p": 0.15, "blocks": [0, 0, 0.05, 0.5, 2.0, 4.0], "lines_p": 0.5}
    quick_cases = 300

    def tune(self, cfg, prof, rng):
        add_flaky_serdes(cfg, rng, 0.25)  # a call that fails before anything is recorded still occupies its position

    def golden_info(self, w, ix):
        return {"ids": oracles.c08_path_ids(ix)}

    def oracle(self, ix, cfg, golden):
        other = None
        if cfg.get("faults"):
            if golden is not None and golden.get("ids") is not None:
                other = golden["ids"]
            else:  # replay / minimisation: recompute the fault-free execution of the same program
                from dexsim.driver import run_execution
                g = dict(cfg)
                g["faults"] = []
                g.pop("choices", None)
                other = oracles.c08_path_ids(oracles.Index(run_execution(g)))
        return oracles.check_c08(ix, other)

    def nontrivial(self, w, ix, cfg):
        branches = {e["pos"] for e in ix.kinds["body-enter"] if e.get("bkind") == "branch"}
        return len(branches) >= 2 and len(w.invocations) >= 2

    def reach(self, w, ix, cfg):
        r = {}
        order = {}
        for e in ix.kinds["body-enter"]:
            if e.get("bkind") == "branch":
                order.setdefault((e["i"], e["parent"]), []).append(e["index"])
        if any(o != sorted(o) for o in order.values()):
            r["branches-out-of-index-order"] = 1
        if any(oracles.ctx_pos(e["pos"])[0] == "branch" and "/b" in oracles.ctx_pos(e["pos"])[1] for e in ix.kinds["call-begin"]):
            r["nested-branch-depth-2"] = 1
        seen = set()
        for e in ix.kinds["body-enter"]:
            if e.get("bkind") == "branch":
                if (e["i"], e["pos"]) in seen:
                    r["branch-resubmitted-in-process"] = 1  # the identifiers of a branch are derived again by the timer thread
                seen.add((e["i"], e["pos"]))
        return r

    def required_reach(self, tier):
        return ["branches-out-of-index-order", "nested-branch-depth-2", "branch-resubmitted-in-process"]


class C10(Check):
    rule = ("early-completion map/parallel configs with surviving branches that are inside a long user function, between two "
            "operations or about to start a new operation when the parent returns; more top-level work follows; non-trivial iff "
            ">=1 branch was still alive when its parent's call returned")
    base_profile = {"weights": {"parallel": 6, "map": 3, "step": 6, "child": 2, "wait": 1, "callback": 0, "wfc": 0, "invoke": 0,
                                "wfcond": 4, "pause": 3}, "swarm": False, "blocks": [0, 0.05, 0.5, 2.0, 4.0], "cfg_p": 1.0, "max_ops": 16,
                    "fault_kinds": ["crash-api", "crash-step", "crash-fn", "crash-fn"], "lines_p": 0.6}

    def tune(self, cfg, prof, rng):
        cfg["drain"] = rng.choice([2.0, 6.0])
        if rng.random() < 0.15:
            # An orphan that arrives at an operation which a dead invocation left STARTED: k-1 fast branches, a late finisher
            # (wait, then a slow step: the wait has elapsed when the execution is re-invoked, so it finishes EARLIER then) and a
            # victim that spends time in plain user code before an operation whose function takes time (a crash inside that
            # function leaves it STARTED). min_successful = k: the late finisher decides the policy.
            w_, b_ = rng.choice([2, 4]), rng.choice([2, 3])
            p_ = b_ + rng.choice([1.0, 1.5, 2.5])
            blk = rng.choice([1.0, 2.0])
            kind = rng.choice(["wfcond", "wfcond", "step", "child", "step-retry", "step-retry"])
            if kind == "step-retry":
                # the operation the orphan arrives at is a RETRY attempt that a dead invocation left STARTED
                x = {"op": "step", "fn": {"attempts": [{"do": "raise", "cls": "ValueError", "msg": "boom"},
                                                       {"do": "ret", "v": ["int", 1], "block": blk}]},
                     "retry": {"kind": "cfg", "max_attempts": 3, "initial": 1, "max": 1, "rate": 1, "jitter": "NONE"}}
                if rng.random() < 0.5:
                    x["sem"] = "amo"
            elif kind == "wfcond":
                x = {"op": "wfcond", "check": {"attempts": [{"do": "ret", "v": ["int", 1], "block": blk}]}, "strategy": [{"stop": 1}],
                     "initial": ["int", 0]}
            elif kind == "step":
                x = {"op": "step", "fn": {"attempts": [{"do": "ret", "v": ["int", 1], "block": blk}]}}
            else:
                x = {"op": "child", "body": [{"op": "step", "fn": {"attempts": [{"do": "ret", "v": ["int", 1], "block": blk}]}}]}
            fast = [{"body": [{"op": "step"}]} for _ in range(rng.choice([0, 1, 2]))]
            late = {"body": [{"op": "wait", "s": w_}, {"op": "step", "fn": {"attempts": [{"do": "ret", "v": ["int", 2], "block": float(b_)}]}}]}
            victim = {"body": [{"op": "pause", "s": p_}, x, {"op": "step"}]}
            brs = fast + [late, victim]
            rng.shuffle(brs)
            cfg["program"] = {"body": [{"op": "parallel", "branches": brs, "cfg": {"min": len(fast) + 1}}, {"op": "step"}]}
            cfg["latency"] = rng.choice([[0.001, 0.002], [0.001, 0.05], [0.01, 0.3]])
            cfg.pop("limits", None)
            return
        add_flaky_serdes(cfg, rng, 0.15)  # e.g. a map/parallel that completes with FAIL while branches are still running
        if rng.random() < 0.6:
            # slow acknowledgements: an orphan's asynchronous START is still unacknowledged when its parent completes
            cfg["latency"] = rng.choice([[0.05, 1.5], [0.5, 4.0], [1.0, 3.0]])
        if cfg["sched"].get("lines") and rng.random() < 0.6:
            cfg["sched"]["stall_hot"] = rng.choice([0.03, 0.1, 0.2])
        if cfg["sched"].get("policy") == "walk" and rng.random() < 0.7:
            # a thread loses the CPU for seconds right after a lock release / queue put / event set: the window between an
            # operation's asynchronous START and its orphan test stays open while a sibling completes the parent
            cfg["sched"]["stall_p"] = rng.choice([0.02, 0.05, 0.1])
        # bias configs towards early exit
        def walk(body):
            for st in body:
                s = st["stmt"] if st["op"] == "try" else st
                if s["op"] in ("parallel", "map"):
                    nb = len(s["branches"]) if s["op"] == "parallel" else len(s["items"])
                    if rng.random() < 0.7:
                        s["cfg"] = dict(s.get("cfg") or {})
                        s["cfg"]["min"] = rng.randrange(1, max(2, nb))
                    for br in (s["branches"] if s["op"] == "parallel" else [{"body": b} for b in s["bodies"]]):
                        walk(br["body"])
                elif s["op"] == "child":
                    walk(s["body"])
        walk(cfg["program"]["body"])

    def oracle(self, ix, cfg, golden):
        return oracles.check_c10(ix)

    def _orphans(self, ix):
        n = 0
        for pos, ds in ix.deliveries.items():
            for d in ds:
                if d["op"] in ("parallel", "map") and d["how"] in ("ret", "raise"):
                    for e in ix.kinds["body-exit"]:
                        if e["i"] == d["inv"] and e.get("parent") == pos and e["s"] > d["s1"]:
                            n += 1
        return n

    def nontrivial(self, w, ix, cfg):
        return self._orphans(ix) > 0

    def reach(self, w, ix, cfg):
        r = {}
        if self._orphans(ix):
            r["orphan-alive-after-parent-returned"] = 1
        if any(e["k"] == "call-abort" and e["cls"] == "OrphanedChildException" for e in ix.kinds["call-abort"]):
            r["orphan-rejected"] = 1
        return r

    def required_reach(self, tier):
        return ["orphan-alive-after-parent-returned", "orphan-rejected"]


class C11(Check):
    rule = ("C01 workload, in 35% of cases with a custom SerDes on 1-3 step / wait_for_condition / child / callback statements whose "
            "k-th serialize or deserialize call fails (scripted); the backend's lifecycle automaton is run over the concatenated "
            "update stream of all invocations; non-trivial iff >=2 invocations contributed updates")
    base_profile = {"amo_p": 0.2, "fault_kinds": ["crash-api", "crash-fn", "crash-step", "spurious", "apierr-retry", "apierr", "apierr"]}

    def tune(self, cfg, prof, rng):
        # in a third of those the failing store client raises InvocationError ("retry the invocation"): the lifecycle
        # automaton does not care which class it is, the SDK's handlers do
        add_flaky_serdes(cfg, rng, 0.35, inv_err_p=0.35)
        if rng.random() < 0.1:
            # template: a child context whose result is summarised (scaled checkpoint limit) is traversed again in the next
            # invocation, and there the store client of a step inside it fails the decode of the recorded result - with
            # InvocationError in half of the cases. Nothing may be sent for the context, which the backend holds as SUCCEEDED.
            body = cfg["program"]["body"]
            fs = {"ser": [], "de": [], "det": rng.choice([[1], [1], [2], [1, 2]])}
            if rng.random() < 0.5:
                fs["cls"] = "InvocationError"
            child = {"op": "child", "body": [{"op": "step"}, {"op": "step", "fserdes": fs}], "ret": ["big", rng.choice([150, 400])]}
            if rng.random() < 0.5:
                # ... or the body's own code raises while the SDK runs it again to rebuild the summarised result
                child = {"op": "child", "body": [{"op": "step"}, {"op": "step"}], "ret": ["big", rng.choice([150, 400])],
                         "rebuild_raise": {"cls": rng.choice(["InvocationError", "InvocationError", "RuntimeError", "ExecutionError"]),
                                           "n": rng.choice([[1], [1], [2], [1, 2]])}}
            body.insert(rng.randrange(len(body) + 1), child)
            body.append({"op": "step", "fn": {"attempts": [{"do": "raise", "cls": "ValueError", "msg": "transient"}, {"do": "ret", "v": ["int", 1]}]},
                         "retry": {"kind": "script", "decisions": [{"retry": 2}, {"no": 1}]}})
            cfg["limits"] = {"ckpt": rng.choice([40, 100]), "resp": 6 * 1024 * 1024 - 50}

    def oracle(self, ix, cfg, golden):
        return oracles.check_c11(ix)

    def nontrivial(self, w, ix, cfg):
        return len({e["i"] for e in ix.kinds["applied"]}) >= 2

    def reach(self, w, ix, cfg):
        r = {}
        for e in ix.kinds["applied"]:
            r[f"{e['type']}:{e['action']}"] = 1
        if any(i["outcome"] == "crash" for i in w.invocations) and len({e["i"] for e in ix.kinds["applied"]}) >= 2:
            r["stream-continued-after-crash"] = 1
        return r

    def required_reach(self, tier):
        return ["STEP:START", "STEP:SUCCEED", "STEP:RETRY", "STEP:FAIL", "CONTEXT:START", "CONTEXT:SUCCEED", "CONTEXT:FAIL",
                "WAIT:START", "CALLBACK:START", "CHAINED_INVOKE:START", "stream-continued-after-crash"]


class C12(Check):
    rule = ("steps with failure scripts under packaged, configured and scripted retry strategies; crashes between and inside "
            "attempts; every strategy call, RETRY record, function entry and delay is checked against a reference model of the "
            "strategy; non-trivial iff >=1 RETRY record was applied")
    base_profile = {"amo_p": 0.15, "fail_p": 0.75, "try_p": 0.9, "swarm": False, "max_ops": 9, "top_hi": 4,
                    "weights": {"step": 10, "parallel": 2, "map": 1, "child": 1, "wait": 1, "callback": 0, "wfc": 1, "invoke": 0,
                                "wfcond": 0, "log": 0},
                    "fault_kinds": ["crash-api", "crash-fn", "crash-step", "spurious", "apierr-retry"]}

    def oracle(self, ix, cfg, golden):
        return oracles.check_c12(ix, cfg)

    def nontrivial(self, w, ix, cfg):
        return any(e["action"] == "RETRY" for e in ix.kinds["applied"])

    def reach(self, w, ix, cfg):
        r = {}
        for e in ix.kinds["strategy"]:
            if not e["retry"]:
                r["strategy-declined"] = 1
            if e["retry"] and e["delay"] < 1:
                r["delay-clamped-to-1"] = 1
            if oracles.ctx_pos(e["pos"])[0] == "branch":
                r["strategy-in-branch"] = 1
        for i in w.invocations[1:]:
            if "PENDING" in i["hist"].values():
                r["pending-on-replay"] = 1
        return r

    def required_reach(self, tier):
        return ["strategy-declined", "delay-clamped-to-1", "strategy-in-branch", "pending-on-replay"]


class C13(Check):
    rule = ("wait_for_condition with scripted check results (values of the serializer's domain) and scripted strategy decisions "
            "(delays including 0), polls spread over many invocations and inside branches, crashes between and inside polls; "
            "non-trivial iff >=2 polls ran in different invocations")
    base_profile = {"swarm": False, "max_ops": 8, "top_hi": 4, "check_fail_p": 0.15,
                    "weights": {"step": 3, "wfcond": 8, "parallel": 2, "map": 1, "child": 1, "wait": 1, "callback": 0, "wfc": 0,
                                "invoke": 0, "log": 0},
                    "fault_kinds": ["crash-api", "crash-fn", "crash-step", "spurious", "apierr-retry"]}

    def tune(self, cfg, prof, rng):
        if rng.random() < 0.15:
            # "poll a job until it is done" inside a branch that is re-polled IN PROCESS: the same state and the same delay
            # several polls in a row, next to a sibling whose function outlasts all of them
            k = rng.choice([2, 3, 4])
            d = rng.choice([1, 1, 2])
            same = gen.gen_value(rng, 1, True)
            att = [{"do": "ret", "v": same} for _ in range(k)] + [{"do": "ret", "v": gen.gen_value(rng, 1, True)}]
            poll = {"op": "wfcond", "check": {"attempts": att}, "strategy": [{"cont": d} for _ in range(k)] + [{"stop": 1}],
                    "initial": gen.gen_value(rng, 1, True)}
            if rng.random() < 0.3:
                poll["ctor"] = True
            slow = {"op": "step", "fn": {"attempts": [{"do": "ret", "v": ["int", 1], "block": float(k * d + rng.choice([1, 3]))}]}}
            brs = [{"body": [poll, {"op": "step"}]}, {"body": [slow]}]
            rng.shuffle(brs)
            cfg["program"] = {"body": [{"op": "parallel", "branches": brs}, {"op": "step"}]}
            cfg["latency"] = rng.choice([[0.001, 0.002], [0.001, 0.05], [0.01, 0.3]])
            cfg.pop("limits", None)
        elif rng.random() < 0.2:
            # a serialisation that restores a NORMAL FORM of what it is given (plain JSON: tuples come back as lists): the first
            # poll gets the configured initial state itself, every later poll what the codec restores
            sts = [st for st in oracles.statements(cfg["program"]).values() if st["op"] == "wfcond"]
            if sts:
                st = rng.choice(sts)

                def jv():
                    return rng.choice([["tuple", [["int", rng.randrange(9)], ["int", 10]]], ["dict", {"w": ["tuple", [["int", 0], ["str", "a"]]], "n": ["int", 1]}],
                                       ["list", [["tuple", [["int", 1]]], ["int", rng.randrange(9)]]], ["int", rng.randrange(100)], ["str", "s"],
                                       ["dict", {"k": ["int", rng.randrange(9)]}]])
                st["initial"] = jv()
                for a_ in st["check"]["attempts"]:
                    if a_["do"] == "ret":
                        a_["v"] = jv()
                st["fserdes"] = {"tag": "N", "norm": True}

    def oracle(self, ix, cfg, golden):
        return oracles.check_c13(ix, cfg)

    def nontrivial(self, w, ix, cfg):
        by = {}
        for e in ix.kinds["check-enter"]:
            by.setdefault(e["pos"], set()).add(e["i"])
        return any(len(v) >= 2 for v in by.values())

    def reach(self, w, ix, cfg):
        r = {}
        exits = {(e["pos"], e["n"]) for e in ix.kinds["fn-exit"]}
        for e in ix.kinds["fn-enter"]:
            if e["fn"] == "check":
                if (e["pos"], e["n"]) not in exits:
                    r["crash-inside-poll"] = 1
                if e.get("status") == "READY":
                    r["READY-on-poll"] = 1
                if e.get("status") == "STARTED" and e["attempt"] >= 2:
                    r["STARTED-with-payload-on-poll"] = 1
        cpos = {c["pos"] for c in ix.kinds["check-enter"]}
        if any(e.get("outcome") == "raise" and e["pos"] in cpos for e in ix.kinds["fn-exit"]):
            r["check-raised"] = 1
        if any(ws["cont"] and ws["delay"] == 0 for ws in ix.kinds["wstrategy"]):
            r["continue-with-delay-0"] = 1
        return r

    def required_reach(self, tier):
        return ["crash-inside-poll", "READY-on-poll", "check-raised", "continue-with-delay-0"]


class C14(Check):
    rule = ("create_callback ... code ... result(), wait_for_callback and invoke with scripted external parties (success, failure, "
            "timeout, cancel, stop; completing before the START response, during the invocation or after suspension); non-trivial "
            "iff a callback/invoke was observed in >=2 invocations")
    base_profile = {"swarm": False, "max_ops": 9, "top_hi": 5,
                    "weights": {"step": 3, "callback": 6, "wfc": 5, "invoke": 6, "parallel": 2, "map": 1, "child": 1, "wait": 1,
                                "wfcond": 0, "log": 0},
                    "fault_kinds": ["crash-api", "crash-fn", "crash-step", "spurious", "apierr-retry"]}

    def oracle(self, ix, cfg, golden):
        return oracles.check_c14(ix, cfg)

    def nontrivial(self, w, ix, cfg):
        for pos, ds in ix.deliveries.items():
            if ds and ds[0]["op"] in ("callback", "wfc", "invoke") and len({d["inv"] for d in ds}) >= 2:
                return True
        return False

    def reach(self, w, ix, cfg):
        r = {}
        for e in ix.kinds["world"]:
            if e["what"].startswith("external-"):
                r["ext:" + e["status"]] = 1
            if e["what"] == "cb-timeout":
                r["ext:TIMED_OUT"] = 1
        for e in ix.kinds["applied"]:
            if e["type"] in ("CALLBACK", "CHAINED_INVOKE") and e["action"] == "START" and e["after"] in TERMINAL:
                r["completed-in-start-response"] = 1
        for e in ix.kinds["world"]:
            if e["what"].startswith("external-") and e["i"] in ix.inv_return and ix.inv_return[e["i"]]["s"] > e["s"]:
                r["completed-while-invocation-running"] = 1
        return r

    def required_reach(self, tier):
        return ["ext:SUCCEEDED", "ext:FAILED", "ext:TIMED_OUT", "ext:CANCELLED", "ext:STOPPED", "completed-while-invocation-running"]



class ComponentCheck(Check):
    """Checks whose system under simulation is one SDK component (no Lambda driver)."""

    gen = run = oracle_fn = reach_fn = None
    quick_cases = 1500
    thorough_cases = 40000
    per_case = 6

    def _one(self, cfg):
        from dexsim import components
        r = self.run(cfg)
        vs = self.oracle_fn(cfg, r)
        return r, vs

    def component(self, seed_i, tier):
        res = {"seed": seed_i, "evals": 0, "sigs": [], "fired": {}, "reach": {}, "violations": [], "steps": 0, "switches": 0,
               "vtime": 0.0, "invocations": 0, "threads": 0, "line_events": 0, "sample": None, "outcomes": {}}
        import hashlib, json
        base = self.gen(seed_i)
        for j in range(self.per_case):
            cfg = dict(base)
            cfg["sched"] = dict(base["sched"], seed=(base["sched"]["seed"] + 977 * j) & 0x3FFFFFFF)
            r, vs = self._one(cfg)
            s = r["sim"]
            res["evals"] += 1
            res["steps"] += s.steps
            res["switches"] += s.switches
            res["threads"] += len(s.threads)
            res["line_events"] += s.line_events
            res["vtime"] += s.clock.now - s.start_time
            res["outcomes"][str(r["reason"])] = res["outcomes"].get(str(r["reason"]), 0) + 1
            order = [(e["k"], e.get("t", e.get("p")), e.get("o")) for e in r["log"]]
            sig = hashlib.blake2b(json.dumps([{k: v for k, v in cfg.items() if k != "sched"}, order]).encode(), digest_size=8).hexdigest()
            nt = self.nontrivial_c(cfg, r)
            res["sigs"].append((sig, nt))
            for k, v in self.reach_c(cfg, r).items():
                res["reach"][k] = res["reach"].get(k, 0) + v
            for k, v in self.fired_c(cfg, r).items():
                res["fired"][k] = res["fired"].get(k, 0) + v
            if res["sample"] is None or (nt and not res["sample"].get("nontrivial")):
                res["sample"] = {"nontrivial": nt, "config": {k: v for k, v in cfg.items()}, "outcome": r["reason"],
                                 "events": [f"{e['s']}:{e['k']}:{e.get('t', e.get('p', ''))}" for e in r["log"][:40]]}
            for v in vs:
                c2 = dict(cfg)
                c2["choices"] = {str(k): val for k, val in s.recorded.items()}
                res["violations"].append({"v": v, "cfg": c2})
        return res

    def fired_c(self, cfg, r):
        s = r["sim"]
        out = {"preemption": s.switches}
        if cfg["sched"].get("lines"):
            out["line-preemption-run"] = 1
        for e in r["log"]:
            if e["k"] == "api-fail":
                out["api-error:" + ("page-fetch" if e.get("page") else "applied" if e.get("applied") else "not-applied")] = 1
            if e["k"] == "boom":
                out["holder-raises-in-critical-section"] = 1
                out["holder-raises:" + str(e.get("cls"))] = 1
            if e["k"] in ("reset-ok", "reset-refused"):
                out["concurrent-" + e["k"]] = 1
        return out

    def component_replay(self, cfg):
        r, vs = self._one(cfg)
        return vs

    def component_minimise(self, cfg, want, budget):
        import json
        best = json.loads(json.dumps(cfg))
        tries = 0

        def ok(c):
            nonlocal tries
            if tries >= budget:
                return False
            tries += 1
            try:
                return any(v["prop"] == want["prop"] and v["cls"] == want["cls"] for v in self.component_replay(c))
            except Exception:  # noqa: BLE001
                return False

        c = dict(best, choices={})
        if ok(c):
            best = c
        key = "threads" if "threads" in best else "producers"
        changed = True
        while changed:
            changed = False
            for i in range(len(best[key])):
                if len(best[key]) <= 1:
                    break
                if best.get("raising") and best["raising"][0] == i:
                    continue
                c = json.loads(json.dumps(best))
                del c[key][i]
                if c.get("raising") and c["raising"][0] > i:
                    c["raising"][0] -= 1
                c["choices"] = {}
                if ok(c):
                    best = c
                    changed = True
                    break
            if changed:
                continue
            for i in range(len(best[key])):
                for j in range(len(best[key][i]) - 1, -1, -1):
                    if len(best[key][i]) <= 1:
                        break
                    if best.get("raising") and best["raising"][0] == i and best["raising"][1] >= j:
                        continue
                    c = json.loads(json.dumps(best))
                    del c[key][i][j]
                    c["choices"] = {}
                    if ok(c):
                        best = c
                        changed = True
                        break
                if changed:
                    break
        if best["sched"].get("policy") != "default" and not best.get("choices"):
            c = dict(best, sched=dict(best["sched"], policy="default", lines=False))
            if ok(c):
                best = c
        return best, tries


class C19(ComponentCheck):
    rule = ("component simulation of the real OrderedLock / OrderedCounter: k in 2..6 simulated threads with scripted "
            "acquire/critical-section/release (or increment) sequences, one critical section optionally raising, line-level "
            "pre-emption always on; case = (script, schedule); non-trivial iff >=2 threads were inside acquire simultaneously")
    assumptions = ["scheduling granularity is one source line of threading.py (sys.settrace) plus every Lock/Event operation",
                   "FIFO is checked in its externally observable form: a thread parked inside acquire before another thread invoked "
                   "acquire must enter first", "trusted base: simulated Lock/Event primitives, CPython"]

    def __init__(self, pid):
        super().__init__(pid)
        from dexsim import components
        self.gen, self.run, self.oracle_fn = components.gen_c19, components.run_c19, components.oracle_c19

    def nontrivial_c(self, cfg, r):
        return any(e["k"] in ("acq-call", "inc-call") and e["parked"] for e in r["log"])

    def reach_c(self, cfg, r):
        out = {}
        if any(e["k"] in ("acq-call", "inc-call") and e["parked"] for e in r["log"]):
            out["waiter-parked-while-another-arrives"] = 1
        if any(e["k"] in ("acq-call", "inc-call") and len(e["parked"]) >= 2 for e in r["log"]):
            out["two-or-more-waiters-parked"] = 1
        if any(e["k"] == "boom" for e in r["log"]):
            out["holder-raised"] = 1
            b = next(e for e in r["log"] if e["k"] == "boom")
            if sum(1 for e in r["log"] if e["k"] == "lock-err") >= 2:
                out["break-with-2+-waiters-or-later-acquirers"] = 1
            if any(e["k"] == "acq-call" and e["s"] > b["s"] for e in r["log"]):
                out["acquire-after-break"] = 1
        if r["sim"].line_events:
            out["line-preemption-on"] = 1
        return out

    def required_reach(self, tier):
        return ["waiter-parked-while-another-arrives", "two-or-more-waiters-parked", "holder-raised", "acquire-after-break"]


class C05(ComponentCheck):
    rule = ("component simulation of the real ExecutionState checkpoint pipeline: real consumer thread, k in 1..6 producer threads "
            "issuing scripted create_checkpoint calls (sync/async, sizes 0..2x the byte limit, empty checkpoints), protocol-level "
            "fake service with latency, paginated responses and (35% of cases) one failing checkpoint call or page fetch, applied or "
            "not; randomised CheckpointBatcherConfig; non-trivial iff >=2 API calls, a batch of >=2 updates or an API failure")
    assumptions = ["hand-over order is checked in its externally observable form: per producer call order, and across producers "
                   "when call A returned before call B was invoked", "after an injected failure only release-with-failure, exactly-once and order of what was delivered are judged; that nothing else is sent is C06",
                   "trusted base: simulated primitives, CPython"]
    per_case = 5

    def __init__(self, pid):
        super().__init__(pid)
        from dexsim import components
        self.gen, self.run, self.oracle_fn = components.gen_c05, components.run_c05, components.oracle_c05

    def nontrivial_c(self, cfg, r):
        from dexsim import components
        x = components.reach_c05(cfg, r)
        return bool(x.get("api-calls>=2") or x.get("batch-of-2+") or x.get("api-failure"))

    def reach_c(self, cfg, r):
        from dexsim import components
        return components.reach_c05(cfg, r)

    def required_reach(self, tier):
        return ["api-calls>=2", "batch-of-2+", "count-limit-hit", "oversize-update-generated", "empty-checkpoint-call", "paginated-response",
                "api-failure", "sync-caller-released-with-failure", "failure-released-2+-blocked-callers"]



def _c09_branch(rng, kind):
    if kind == "ok":
        if rng.random() < 0.5:
            return {"body": [{"op": "step", "fn": {"attempts": [{"do": "ret", "v": gen.gen_value(rng, 1, True)}]}}]}
        return {"body": [{"op": "step", "fn": {"attempts": [{"do": "ret", "v": ["int", 1], "block": rng.choice([0, 0.05, 0.5, 2.0])}]}}],
                "ret": gen.gen_value(rng, 0, True)}
    if kind == "fail":
        cls = rng.choice(gen.USER_ERRS)
        if rng.random() < 0.5:
            return {"body": [{"op": "raise", "cls": cls, "msg": rng.choice(["bad item", "boom", ""])}]}
        return {"body": [{"op": "step", "fn": {"attempts": [{"do": "raise", "cls": cls, "msg": "step failed", "block": rng.choice([0, 0.05, 0.5])}]},
                          "retry": {"kind": "preset", "name": "none"}}]}
    if kind == "wait":
        return {"body": [{"op": "wait", "s": rng.choice([1, 2, 5, 60])}, {"op": "step"}]}
    if kind == "callback":
        return {"body": [{"op": "callback", "between": []}]}
    if kind == "retry":
        return {"body": [{"op": "step", "fn": {"attempts": [{"do": "raise", "cls": "ValueError", "msg": "transient"}, {"do": "ret", "v": ["str", "late"]}]},
                          "retry": {"kind": "script", "decisions": [{"retry": rng.choice([1, 2, 5])}, {"no": 1}]}}]}
    if kind == "block":
        return {"body": [{"op": "step", "fn": {"attempts": [{"do": "ret", "v": ["str", "slow"], "block": 30.0}]}}]}
    if kind == "nested":
        # the branch's result is itself the BatchResult of a nested parallel
        inner = {"op": "parallel", "branches": [{"body": [{"op": "step"}]}, {"body": [{"op": "step", "fn": {"attempts": [{"do": "ret", "v": gen.gen_value(rng, 0, True)}]}}]}]}
        return {"body": [inner], "ret": ["last"]}
    raise AssertionError(kind)


class C09(Check):
    base_profile = {"lines_p": 0.6}
    quick_cases = 1200
    rule = ("one map/parallel call with 0..6 items, every CompletionConfig combination, max_concurrency in {None,1,2,n}, per-branch "
            "scripts (succeed, fail, park on wait/callback/retry, block 30 virtual s) followed by a wait and a step so that the call is "
            "replayed; non-trivial iff >=2 branch bodies overlapped or the call returned with a branch still running/parked")

    def make_cfg(self, seed_i, prof):
        rng = random.Random(H(seed_i, "prog"))
        n = rng.choice([0, 1, 2, 2, 3, 3, 4, 5, 6])
        kinds = {"ok": 6, "fail": 4, "wait": 1.5, "callback": 1, "retry": 1, "block": 1.5, "nested": 1}
        if rng.random() < 0.4:
            kinds = {"ok": 5, "fail": 5, "block": 2}
        branches = [_c09_branch(rng, gen.pick(rng, kinds)) for _ in range(n)]
        cfgc = None
        if rng.random() < 0.85:
            cfgc = {}
            if rng.random() < 0.5:
                cfgc["min"] = rng.randrange(1, max(2, n + 1))
            if rng.random() < 0.45:
                cfgc["tol"] = rng.choice([0, 1, 2, max(0, n - 1)])
            if rng.random() < 0.35:
                cfgc["pct"] = rng.choice([0, 14, 16, 20, 25, 33, 34, 50, 66, 100])
                if n >= 2 and rng.random() < 0.6:
                    # a tolerance that sits exactly at the floor of a fractional percentage: k of n failures exceed it
                    k = rng.randrange(1, n)
                    cfgc["pct"] = (100 * k) // n
            if rng.random() < 0.45:
                cfgc["conc"] = rng.choice([1, 2, max(1, n)])
            if rng.random() < 0.2:
                cfgc["summary"] = True
        if rng.random() < 0.6:
            st = {"op": "parallel", "branches": branches}
        else:
            st = {"op": "map", "items": [["int", i] for i in range(n)], "bodies": [b["body"] for b in branches],
                  "rets": [b.get("ret") for b in branches]}
        if cfgc is not None:
            st["cfg"] = cfgc
        body = [{"op": "try", "stmt": st, "catch": ["CallableRuntimeError"] + gen.USER_ERRS, "handler": []}]
        if rng.random() < 0.8:
            body.append({"op": "wait", "s": rng.choice([1, 3])})
        body.append({"op": "step"})
        if rng.random() < 0.3:
            body.insert(0, {"op": "step"})
        program = {"body": body}
        ext = {}
        gen.assign_externals(body, "r", ext)
        for pos_, st_ in oracles.statements(program).items():
            if st_["op"] == "callback":
                st_["ext"] = {"outcome": rng.choice(["succeed", "succeed", "fail"]), "delay": rng.choice([0.05, 0.5, 3, 40]),
                              "payload": "cb", "message": "cb failed", "etype": "ExtErr"}
        sched = gen.gen_sched(random.Random(H(seed_i, "sched")), prof)
        knobs = gen.gen_knobs(random.Random(H(seed_i, "knobs")), prof)
        knobs["latency"] = rng.choice([[0.001, 0.002], [0.001, 0.05], [0.01, 0.3]])
        cfg = {"program": program, "externals": ext, "seed": seed_i % (1 << 31), "sched": sched, "faults": [], "max_inv": 40}
        cfg.update(knobs)
        cfg.pop("skew", None)
        return cfg

    def fault_plans(self, rng, st, prof, tier, cfg, w):
        n = 3 if tier == "quick" else 6
        prof = dict(prof, fault_kinds=["crash-api", "crash-fn", "spurious"])
        return [p for p in (gen_fault_plan(rng, st, prof) for _ in range(n)) if p]

    def oracle(self, ix, cfg, golden):
        vs = oracles.check_c09(ix, cfg)
        for v in oracles.check_c02(ix):
            st = oracles.statements(cfg["program"]).get(v.get("pos"))
            if st and st["op"] in ("parallel", "map"):
                v = dict(v)
                v["prop"] = "C09"
                v["cls"] = "replayed-" + v["cls"]
                vs.append(v)
        return vs

    def nontrivial(self, w, ix, cfg):
        act = 0
        for e in sorted(ix.kinds["body-enter"] + ix.kinds["body-exit"], key=lambda e: e["s"]):
            if e.get("bkind") != "branch":
                continue
            act += 1 if e["k"] == "body-enter" else -1
            if act >= 2:
                return True
        return False

    def reach(self, w, ix, cfg):
        r = {}
        for pos, ds in ix.deliveries.items():
            for d in ds:
                if d["op"] in ("parallel", "map") and d["how"] == "ret" and d["v"][0] == "batch":
                    r["reason:" + d["v"][1]] = 1
                    if any(it[1] == "STARTED" for it in d["v"][2]):
                        r["returned-with-STARTED-items"] = 1
                    if not d["v"][2]:
                        r["zero-items-returned"] = 1
        st = [s for s in oracles.statements(cfg["program"]).values() if s["op"] in ("parallel", "map")]
        if st and (len(st[0].get("branches", st[0].get("items", []))) == 0):
            r["zero-items-generated"] = 1
        if st and (st[0].get("cfg") or {}).get("conc") == 1:
            r["max-concurrency-1"] = 1
        return r

    def required_reach(self, tier):
        return ["reason:ALL_COMPLETED", "reason:MIN_SUCCESSFUL_REACHED", "reason:FAILURE_TOLERANCE_EXCEEDED",
                "returned-with-STARTED-items", "zero-items-generated", "max-concurrency-1"]


def _positions_of(program, op):
    return [p for p, st in oracles.statements(program).items() if st["op"] == op]


class C16(Check):
    rule = ("child/map/parallel results straddling the checkpoint limit (limit-50 .. 2x limit), with and without summary generator, "
            "failed branches present, followed by a wait so that the context is replayed; handler results and error messages "
            "straddling the response limit (ASCII, non-ASCII and escape-heavy text); 30% of the context cases sit in a branch that "
            "is resubmitted in process, so the summarised context is traversed again in the invocation that completed it; "
            "limits scaled down (stated knob) in 4 of 5 runs, real constants in the rest; "
            "non-trivial iff >=1 payload exceeded a limit")
    quick_cases = 300

    def make_cfg(self, seed_i, prof):
        rng = random.Random(H(seed_i, "prog"))
        real = rng.random() < 0.2
        ck = 256 * 1024 if real else rng.choice([600, 2000, 5000])
        rl = (6 * 1024 * 1024 - 50) if real else rng.choice([3000, 9000, 30000])

        def big(limit):
            # a str of n characters serialises to n + 2 characters: limit - 2 is the payload of exactly `limit` characters
            return ["big", max(1, rng.choice([limit - 60, limit - 3, limit - 2, limit - 2, limit - 1, limit, limit + 1, limit + 40, 2 * limit]))]

        body = []
        kind = rng.choice(["child", "parallel", "map", "nested", "handler", "error", "handler"])
        if kind == "child":
            body.append({"op": "child", "body": [{"op": "step"}, {"op": "step", "fn": {"attempts": [{"do": "ret", "v": ["int", 3]}], "log": False}}],
                         "ret": big(ck)})
        elif kind in ("parallel", "map"):
            n = rng.randrange(1, 5)
            per = max(1, ck // n)
            brs = []
            for b in range(n):
                if rng.random() < 0.25:
                    if rng.random() < 0.5:
                        brs.append({"body": [{"op": "raise", "cls": "ValueError", "msg": "bad"}]})
                    else:  # the result is oversized because of what the failed branches report
                        brs.append({"body": [{"op": "raise", "cls": "ValueError", "size": max(1, rng.choice([per, ck + 5, 2 * ck]))}]})
                else:
                    brs.append({"body": [{"op": "step"}], "ret": ["big", max(1, rng.choice([per - 80, per - 10, per, per + 10, per + 200, ck + 5, 2 * ck]))]})
            c = {"tol": n}
            if n >= 2 and rng.random() < 0.3:
                # early completion: the oversized result is decided while other branches are still running (they take time)
                c = {"min": rng.randrange(1, n)}
                for b_ in brs:
                    if b_["body"] and b_["body"][0]["op"] == "step" and rng.random() < 0.6:
                        b_["body"][0] = {"op": "step", "fn": {"attempts": [{"do": "ret", "v": ["int", 1],
                                                                            "block": rng.choice([0.05, 0.5, 2.0, 4.0])}]}}
            if rng.random() < 0.5:
                c["summary"] = True
            if rng.random() < 0.35:
                # custom SerDes for the items, the batch result, or both (own prefix each): the rebuilt result must be decoded
                # with the serialiser each part was written with
                which = rng.choice(["item_serdes", "serdes", "both"])
                if which in ("item_serdes", "both"):
                    c["item_serdes"] = "I"
                if which in ("serdes", "both"):
                    c["serdes"] = "B"
            if kind == "parallel":
                body.append({"op": "parallel", "branches": brs, "cfg": c if rng.random() < 0.8 else None})
                if body[-1]["cfg"] is None:
                    del body[-1]["cfg"]
            else:
                body.append({"op": "map", "items": [["int", i] for i in range(n)], "bodies": [b["body"] for b in brs],
                             "rets": [b.get("ret") for b in brs], "cfg": c})
        elif kind == "nested":
            inner = {"op": "child", "body": [{"op": "step"}], "ret": big(ck)}
            body.append({"op": "child", "body": [inner, {"op": "step"}], "ret": big(ck)})
        if kind in ("child", "parallel", "map", "nested") and rng.random() < 0.3:
            # the oversized context is completed and then traversed again inside the SAME invocation: it sits in a branch that
            # parks on a short timer while a sibling is still running, so the timer thread resubmits the branch in process
            slow = {"op": "step", "fn": {"attempts": [{"do": "ret", "v": ["int", 1], "block": rng.choice([3.0, 6.0])}]}}
            body = [{"op": "parallel", "cfg": {"tol": 2},
                     "branches": [{"body": body + [{"op": "wait", "s": 1}, {"op": "step"}]}, {"body": [slow]}]}]
            kind = "resubmitted-" + kind
        if kind != "error":
            body.append({"op": "wait", "s": 2})
            body.append({"op": "step"})
        program = {"body": [({"op": "try", "stmt": st, "catch": ["CallableRuntimeError"], "handler": []} if st["op"] in ("parallel", "map", "child") and rng.random() < 0.3 else st)
                            for st in body]}
        def bigu(limit):
            # non-ASCII text whose character count is below the limit while its bytes are not (and the certain cases around it)
            return ["bigu", max(1, rng.choice([limit // 6 - 20, limit // 4, limit // 3 + 20, limit // 2, limit - 10, limit + 5]))]

        uni = rng.random() < 0.35
        if kind == "handler":
            program["ret"] = bigu(rl) if uni else big(rl)
        elif kind == "error":
            program["body"] = [{"op": "step"}, {"op": "raise", "cls": rng.choice(["ValueError", "UserErrA"]),
                                                "size": (bigu(rl) if uni else big(rl))[1]}]
            if uni:
                program["body"][-1]["uni"] = True
            elif rng.random() < 0.3:
                # a message full of characters that JSON escapes: half as many characters as encoded bytes
                program["body"][-1]["esc"] = True
                program["body"][-1]["size"] = max(1, program["body"][-1]["size"] // rng.choice([2, 3, 4]))
            if rng.random() < 0.4:
                # the oversized final error is not raised by handler code itself: a durable operation fails for good with it
                # and the handler lets the SDK's exception through (top level or out of a child context)
                r_ = program["body"][-1]
                failing = {"op": "step", "fn": {"attempts": [{"do": "raise", "cls": r_["cls"], "size": r_["size"], "uni": bool(r_.get("uni"))}]},
                           "retry": {"kind": "preset", "name": "none"}}
                program["body"][-1] = failing if rng.random() < 0.6 else {"op": "child", "body": [failing]}
        elif rng.random() < 0.3:
            program["ret"] = bigu(rl) if uni else big(rl)
        ext = {}
        sched = gen.gen_sched(random.Random(H(seed_i, "sched")), prof)
        knobs = gen.gen_knobs(random.Random(H(seed_i, "knobs")), prof)
        if "batch" in knobs:
            knobs["batch"]["bytes"] = max(knobs["batch"]["bytes"], 750 * 1024)
        knobs.pop("limits", None)
        cfg = {"program": program, "externals": ext, "seed": seed_i % (1 << 31), "sched": sched, "faults": [], "max_inv": 30,
               "limits": {"ckpt": ck, "resp": rl}}
        cfg.update(knobs)
        return cfg

    def oracle(self, ix, cfg, golden):
        return oracles.check_c16(ix, cfg)

    def nontrivial(self, w, ix, cfg):
        lim = cfg["limits"]
        return any(e.get("replay_children") for e in ix.kinds["applied"]) or any(
            h["size"] and h["size"] > lim["resp"] for h in ix.kinds["handler-exit"]) or any(e["type"] == "EXECUTION" for e in ix.kinds["applied"])

    def reach(self, w, ix, cfg):
        r = {}
        for e in ix.kinds["applied"]:
            if e.get("replay_children"):
                r["summary-" + ("with-payload" if e["size"] else "empty")] = 1
                r["replay-children:" + str(e["sub"])] = 1
            if e["type"] == "EXECUTION":
                r["execution-record:" + e["action"]] = 1
        if any(e.get("rc") and e.get("status") == "SUCCEEDED" for e in ix.kinds["body-enter"]):
            r["replay-children-traversal"] = 1
        done_in = {(e["i"], e.get("name")) for e in ix.kinds["applied"] if e.get("replay_children")}
        if any(e.get("rc") and e.get("status") == "SUCCEEDED" and (e["i"], e["pos"]) in done_in for e in ix.kinds["body-enter"]):
            r["re-traversal-in-the-completing-invocation"] = 1
        if cfg["limits"]["ckpt"] == 256 * 1024:
            r["real-limits"] = 1
        return r

    def required_reach(self, tier):
        return ["summary-with-payload", "summary-empty", "replay-children-traversal", "execution-record:SUCCEED",
                "execution-record:FAIL", "real-limits", "re-traversal-in-the-completing-invocation"]


class C17(Check):
    rule = ("sequential programs (child contexts, callbacks, wait_for_callback; map/parallel only as units) with log statements "
            "between operations and inside step functions, capturing logger installed with set_logger; histories produced by real "
            "suspensions and crashes, first-page sizes from 1; non-trivial iff a resumed invocation had >=1 expected-silent and "
            ">=1 expected-emitted log call")
    base_profile = {"weights": {"log": 7, "step": 6, "wait": 3, "child": 3, "callback": 1, "wfc": 1, "parallel": 1, "map": 0,
                                "invoke": 1, "wfcond": 1}, "fnlog_p": 0.5, "fail_p": 0.2, "max_ops": 12,
                    "fault_kinds": ["crash-api", "crash-fn", "spurious"]}
    quick_cases = 400

    def tune(self, cfg, prof, rng):
        if rng.random() < 0.5:
            cfg["first_page"] = rng.choice([1, 1, 2, 3])
            cfg["state_page"] = rng.choice([1, 2, 1000])
        if rng.random() < 0.25:
            # a map/parallel unit whose result is recorded as a summary (ReplayChildren), with failed / unfinished
            # branches: its replay re-traverses only the succeeded branches
            nb = rng.randrange(2, 5)
            brs = []
            for _ in range(nb):
                k = rng.choice(["ok", "ok", "fail", "wait"])
                if k == "ok":
                    brs.append({"body": [{"op": "step"}], "ret": ["big", rng.choice([30, 120])]})
                elif k == "fail":
                    brs.append({"body": [{"op": "step"}, {"op": "raise", "cls": "ValueError", "msg": "bad"}]})
                else:
                    brs.append({"body": [{"op": "step"}, {"op": "wait", "s": rng.choice([1, 3600])}]})
            st = {"op": "parallel", "branches": brs, "cfg": {"tol": nb, "min": rng.choice([None, 1, nb])}}
            if st["cfg"]["min"] is None:
                del st["cfg"]["min"]
            body = cfg["program"]["body"]
            body.insert(rng.randrange(len(body) + 1), {"op": "try", "stmt": st, "catch": ["CallableRuntimeError"], "handler": []})
            body.append({"op": "wait", "s": 2})
            body.append({"op": "log"})
            body.append({"op": "step", "fn": {"attempts": [{"do": "ret", "v": ["int", 1]}], "log": True}})
            cfg["limits"] = {"ckpt": rng.choice([40, 100]), "resp": 6 * 1024 * 1024 - 50}
        elif rng.random() < 0.2:
            # a child context whose result is recorded as a summary: its body (with log calls before, between and after its
            # operations) is traversed again on replay; what follows it is a retried step, so that the context can be the
            # last completed unit of a resumed invocation
            body = cfg["program"]["body"]
            child = {"op": "child", "body": [{"op": "log"}, {"op": "step"}, {"op": "log"}, {"op": "step", "fn": {"attempts": [{"do": "ret", "v": ["int", 2]}], "log": True}},
                                             {"op": "log"}], "ret": ["big", rng.choice([150, 400])]}
            body.insert(rng.randrange(len(body) + 1), child)
            body.append({"op": "log"})
            body.append({"op": "step", "fn": {"attempts": [{"do": "raise", "cls": "ValueError", "msg": "transient"}, {"do": "ret", "v": ["int", 1]}], "log": True},
                         "retry": {"kind": "script", "decisions": [{"retry": 2}, {"no": 1}]}})
            body.append({"op": "log"})
            cfg["limits"] = {"ckpt": rng.choice([40, 100]), "resp": 6 * 1024 * 1024 - 50}

    def oracle(self, ix, cfg, golden):
        return oracles.check_c17(ix, cfg)

    def nontrivial(self, w, ix, cfg):
        logs_by_inv = {}
        for n, e in enumerate(ix.trace):
            if e["k"] == "log-call" and e["i"] > 1 and not oracles._under_branch(e["pos"]):
                nxt = next((x for x in ix.trace[n + 1:n + 400] if x["t"] == e["t"] and x["i"] == e["i"]
                            and x["k"] not in ("stall", "sdk-call", "sdk-ret")), {})
                logs_by_inv.setdefault(e["i"], set()).add(nxt.get("k") == "log")
        return any(len(v) == 2 for v in logs_by_inv.values())

    def reach(self, w, ix, cfg):
        r = {}
        for i in w.invocations[1:]:
            for oid, st in i["hist"].items():
                if st in TERMINAL and oid in ix.info:
                    sub = ix.info[oid]["sub"]
                    r["history-with-completed:" + str(sub)] = 1
        if any(b.get("first_page") == 1 and b.get("n_hist", 0) > 1 for b in ix.kinds["inv-begin"]):
            r["first-page-of-size-1"] = 1
        return r

    def required_reach(self, tier):
        return ["history-with-completed:Step", "history-with-completed:RunInChildContext", "history-with-completed:Wait",
                "first-page-of-size-1"]


class C18(Check):
    rule = ("handlers that return JSON-serialisable and non-serialisable values of any size, raise ordinary exceptions and SDK "
            "ExecutionError/InvocationError/ValidationError subclasses from top level, child contexts and branches; malformed "
            "events; every API-error class at every call position; non-trivial iff the execution was anything but a fault-free "
            "SUCCEEDED")
    quick_cases = 400
    RAISE = ["ValueError", "KeyError", "UserErrA", "ExecutionError", "InvocationError", "ValidationError", "SerDesError",
             "CallableRuntimeError", "CallbackError", "StepInterruptedError", "NonDeterministicExecutionError", "InvalidStateError",
             "ZeroDivisionError", "TypeError"]
    base_profile = {"max_ops": 7, "top_hi": 4, "amo_p": 0.2}
    ARGS = [[], [["int", 404]], [["uuid", "12345678-1234-5678-1234-567812345678"]], [["bytes", "00ff"]],
            [["tuple", [["int", 1], ["str", "a"]]]], [["str", "a"], ["int", 2]], [["str", "h\u00e9llo \u2713 \U0001f600"]], [["none"]],
            [["dec", "1.5"]], [["float", 2.5]], [["str", ""]], [["list", [["str", "x"]]]]]

    def make_cfg(self, seed_i, prof):
        cfg = Check.make_cfg(self, seed_i, prof)
        rng = random.Random(H(seed_i, "c18"))
        body = cfg["program"]["body"]
        r = rng.random()
        rs = {"op": "raise", "cls": rng.choice(self.RAISE), "msg": "user raise"}
        step_err = {"do": "raise", "cls": rng.choice(self.RAISE), "msg": "in step"}
        if rng.random() < 0.4:
            # exceptions are not always built from one string
            tgt = rng.choice([rs, step_err])
            tgt["args"] = rng.choice(self.ARGS)
            if tgt["cls"] == "CallableRuntimeError":
                tgt["cls"] = rng.choice(["KeyError", "ValueError", "UserErrA"])
        if r < 0.3:
            body.append(rs)
        elif r < 0.45:
            body.append({"op": "child", "body": [{"op": "step"}, rs]})
        elif r < 0.6:
            body.append({"op": "parallel", "branches": [{"body": [{"op": "step"}]}, {"body": [rs]}],
                         "cfg": rng.choice([None, {"tol": 0}, {"tol": 2}])})
            if body[-1]["cfg"] is None:
                del body[-1]["cfg"]
        elif r < 0.7:
            body.append({"op": "step", "fn": {"attempts": [step_err]},
                         "retry": {"kind": "preset", "name": "none"}})
        elif r < 0.85:
            cfg["program"]["ret"] = rng.choice([["set"], ["obj"], ["bytes", "00ff"], ["dec", "1.5"], ["big", 5000], ["none"],
                                                ["dict", {"a": ["tuple", [["int", 1]]]}], ["float", 1e300], ["dt", "2024-01-02T03:04:05+00:00"],
                                                ["kdict", "tuple"], ["kdict", "bytes", 1], ["kdict", "frozenset"], ["kdict", "tuple", 1]])
        if rng.random() < 0.15:
            cfg["bad_event"] = rng.choice([{}, {"DurableExecutionArn": "a"}, {"CheckpointToken": "t"}, [],
                                           {"DurableExecutionArn": "a", "CheckpointToken": "t", "InitialExecutionState": {"Operations": [{"Id": "x"}]}},
                                           {"DurableExecutionArn": "a", "CheckpointToken": "t", "InitialExecutionState": "zzz"}, None, "str"])
            cfg["max_inv"] = 3
            cfg["stop_on_raise"] = True
        if rng.random() < 0.5:
            cfg["limits"] = {"resp": rng.choice([200, 2000]), "ckpt": 256 * 1024}
        if rng.random() < 0.3:
            cfg["resp_page"] = rng.choice([1, 1, 2])  # checkpoint responses continue on further pages
        add_flaky_serdes(cfg, rng, 0.15)
        return cfg

    def fault_plans(self, rng, st, prof, tier, cfg, w):
        classes = ["500", "503", "429", "400", "400tok", "403", "404", "conn"]
        plans = []
        for k in range(1, w.api_calls + 1):
            plans.append([{"kind": "apierr", "call": k, "err": rng.choice(classes), "applied": rng.random() < 0.25}])
        rng.shuffle(plans)
        n = 5 if tier == "quick" else 12
        plans = plans[:n]
        rpf = response_page_fetches(w)
        for k in rng.sample(rpf, min(2, len(rpf))):
            plans.append([{"kind": "apierr", "call": k, "err": rng.choice(classes), "applied": False}])
        if w.api_calls:
            # a call that stays in flight for a long time (client-side retries of read timeouts) and then fails
            k = rng.randrange(1, w.api_calls + 1)
            plans.append([{"kind": "slow", "call": k, "s": rng.choice([20.0, 61.0, 90.0, 400.0])},
                          {"kind": "apierr", "call": k, "err": rng.choice(classes), "applied": False}])
        prof2 = dict(prof, fault_kinds=["crash-api", "crash-fn"])
        plans.append(gen_fault_plan(rng, st, prof2))
        return [p for p in plans if p]

    def oracle(self, ix, cfg, golden):
        return oracles.check_c18(ix, cfg)

    def nontrivial(self, w, ix, cfg):
        return not (len(w.invocations) == 1 and w.invocations[0]["outcome"] == "SUCCEEDED")

    def reach(self, w, ix, cfg):
        r = {}
        for i in w.invocations:
            r["outcome:" + i["outcome"]] = 1
            if i["outcome"] == "raise":
                r["raised:" + str(i.get("exc_cls"))] = 1
        for e in ix.kinds["user-raise"]:
            if oracles.ctx_pos(e["pos"])[0] == "branch":
                r["raise-in-branch"] = 1
        for h in ix.kinds["handler-exit"]:
            if not h["serialisable"]:
                r["non-serialisable-return"] = 1
        if any(e["type"] == "EXECUTION" for e in ix.kinds["applied"]):
            r["large-result-checkpoint"] = 1
        for e in ix.kinds["api-end"]:
            if not e.get("ok") and e.get("err"):
                b = next((b for b in ix.kinds["api-begin"] if b["call"] == e["call"]), None)
                if b and b["op"] == "get" and any(x["op"] == "checkpoint" and x["i"] == b["i"] and x["s"] < b["s"]
                                                  for x in ix.kinds["api-begin"]):
                    r["failed-response-page-fetch"] = 1
        return r

    def required_reach(self, tier):
        return ["outcome:SUCCEEDED", "outcome:FAILED", "outcome:PENDING", "outcome:raise", "raise-in-branch", "non-serialisable-return",
                "large-result-checkpoint", "raised:ExecutionError", "raised:CheckpointError"]


CHECKS = {c.id: c for c in [C01("C01"), C02("C02"), C03("C03"), C04("C04"), C06("C06"), C07("C07"), C08("C08"),
                            C10("C10"), C11("C11"), C12("C12"), C13("C13"), C14("C14"), C05("C05"), C19("C19"), C09("C09"), C16("C16"), C17("C17"), C18("C18")]}
