"""Simulated `queue` module: Queue, SimpleQueue, Empty, Full."""

from __future__ import annotations

from collections import deque
from queue import Empty, Full  # real exception classes so `except queue.Empty` matches

from dexsim import sim as _sim
from dexsim.simthreading import _Prim


class SimpleQueue(_Prim):
    __slots__ = ("_q",)

    def __init__(self):
        super().__init__()
        self._q = deque()

    def put(self, item, block=True, timeout=None):
        s = self._sim
        cur = s.cur() if s is not None else None
        if cur is None:
            self._q.append(item)
            return
        s.yield_point(cur, "q.put")
        self._q.append(item)
        self._wake_all()

    put_nowait = put

    def get(self, block=True, timeout=None):
        s = self._sim
        cur = s.cur() if s is not None else None
        if cur is None:
            if self._q:
                return self._q.popleft()
            raise Empty
        s.yield_point(cur, "q.get")
        deadline = None if timeout is None else s.clock.now + timeout
        while not self._q:
            if not block:
                raise Empty
            rem = None
            if deadline is not None:
                rem = deadline - s.clock.now
                if rem <= 0:
                    raise Empty
            self._block(cur, rem, "Queue.get")
        return self._q.popleft()

    def get_nowait(self):
        return self.get(False)

    def empty(self):
        s = self._sim
        cur = s.cur() if s is not None else None
        if cur is not None:
            s.yield_point(cur, "q.empty")
        return not self._q

    def qsize(self):
        return len(self._q)


class Queue(SimpleQueue):
    __slots__ = ("unfinished_tasks", "maxsize")

    def __init__(self, maxsize=0):
        super().__init__()
        self.maxsize = maxsize
        self.unfinished_tasks = 0

    def put(self, item, block=True, timeout=None):
        self.unfinished_tasks += 1
        SimpleQueue.put(self, item, block, timeout)

    put_nowait = put

    def task_done(self):
        if self.unfinished_tasks <= 0:
            raise ValueError("task_done() called too many times")
        self.unfinished_tasks -= 1

    def join(self):
        raise _sim.HarnessError("Queue.join is not simulated")

    def full(self):
        return False


LifoQueue = PriorityQueue = None
