"""Simulated `time` and `datetime` namespaces reading the virtual clock."""

from __future__ import annotations

import datetime as _dt

from dexsim import sim as _sim


def _now_sdk():
    s = _sim.CURRENT
    if s is None:
        return 1_700_000_000.0
    return s.sdk_time()


def time():
    return _now_sdk()


def monotonic():
    s = _sim.CURRENT
    return 0.0 if s is None else s.clock.now


perf_counter = monotonic


def sleep(seconds):
    s = _sim.CURRENT
    if s is not None:
        s.sleep(seconds, False, "time.sleep")


class _SimDateTime(_dt.datetime):
    @classmethod
    def now(cls, tz=None):
        return _dt.datetime.fromtimestamp(_now_sdk(), tz)

    @classmethod
    def utcnow(cls):
        return _dt.datetime.fromtimestamp(_now_sdk(), _dt.UTC).replace(tzinfo=None)

    @classmethod
    def fromtimestamp(cls, ts, tz=None):
        return _dt.datetime.fromtimestamp(ts, tz)


class _DatetimeNS:
    """Stands in for the `datetime` module inside suspend.py / lambda_service.py."""

    datetime = _SimDateTime
    UTC = _dt.UTC
    timezone = _dt.timezone
    timedelta = _dt.timedelta
    date = _dt.date


datetime_ns = _DatetimeNS()


class _RandomNS:
    def __init__(self):
        import random as _r
        self._rng = _r.Random(0)

    def seed(self, n):
        self._rng.seed(n)

    def random(self):
        return self._rng.random()


random_ns = _RandomNS()
