"""World state and the reference durable-execution backend (the oracle for "durable").

The backend is presented to the SDK as a duck-typed boto3 Lambda client, so the SDK's
own LambdaClient / wire codecs / error classification run as shipped.
See DESIGN.md section 3.
"""

from __future__ import annotations

import copy
import datetime as _dt
import json

from dexsim import sim as _sim

TERMINAL = {"SUCCEEDED", "FAILED", "CANCELLED", "TIMED_OUT", "STOPPED"}
UTC = _dt.UTC

ERROR_CLASSES = {
    # name: (http status, code, message, retriable-by-lambda i.e. wrapper must raise)
    "500": (500, "ServiceException", "internal failure", False),
    "503": (503, "ServiceUnavailableException", "unavailable", False),
    "429": (429, "TooManyRequestsException", "slow down", False),
    "400": (400, "InvalidParameterValueException", "bad parameter", True),
    "400tok": (400, "InvalidParameterValueException", "Invalid Checkpoint Token: stale", False),
    "403": (403, "AccessDeniedException", "denied", True),
    "404": (404, "ResourceNotFoundException", "no such execution", True),
    "conn": (None, None, "connection reset", False),
}


def make_client_error(name):
    status, code, msg, _ = ERROR_CLASSES[name]
    if status is None:
        return ConnectionError(msg)
    from botocore.exceptions import ClientError

    return ClientError(
        {"Error": {"Code": code, "Message": msg},
         "ResponseMetadata": {"HTTPStatusCode": status, "RequestId": "sim"}},
        "CheckpointDurableExecution",
    )


def ts(t):
    return _dt.datetime.fromtimestamp(t, UTC)


class World:
    """Everything that survives an invocation: clock, backend, trace, fault plan."""

    def __init__(self, cfg):
        self.cfg = cfg
        self.clock = _sim.Clock()
        self.t0 = self.clock.now
        self.trace = []
        self.seq = 0
        self.inv = 0
        self.sim = None
        self.fired = {}
        self.serdes_calls = {}
        self.reach = {}
        self.api_calls = 0
        self.fn_entries = 0
        self.faults = [dict(f) for f in cfg.get("faults", [])]
        self.externals = dict(cfg.get("externals") or {})
        self.backend = Backend(self, "arn:aws:lambda:sim:1:function:f:1/durable-execution/e/1",
                               cfg.get("input", {"k": 1}))
        self.entry_counts = {}

    # ---------------------------------------------------------------- trace
    def rec(self, kind, **data):
        s = self.sim
        if s is not None and s.killed:
            return None
        self.seq += 1
        t = _sim.current_thread()
        data["s"] = self.seq
        data["i"] = self.inv
        data["t"] = t.idx if t is not None else -1
        data["k"] = kind
        data["vt"] = round(self.clock.now - self.t0, 6)
        self.trace.append(data)
        if s is not None:
            s.progress()
        return data

    def hit(self, probe, n=1):
        self.reach[probe] = self.reach.get(probe, 0) + n

    def fire(self, kind):
        self.fired[kind] = self.fired.get(kind, 0) + 1

    # --------------------------------------------------------------- faults
    def take_fault(self, pred):
        for f in self.faults:
            if not f.get("_done") and pred(f):
                f["_done"] = True
                return f
        return None

    def crash_here(self, label):
        self.fire("crash:" + label)
        self.rec("crash", where=label)
        self.sim.request_stop("crash")


class Backend:
    def __init__(self, world, arn, input_obj):
        self.w = world
        self.arn = arn
        self.ops = {}
        self.order = []
        self.version = 0
        self.applied = []
        self.tok_n = 0
        self.tokens = {}
        self.latest_token = None
        self.timers = []  # (time, tie, kind, op_id, data)
        self.tie = 0
        self.exec_status = "RUNNING"
        self.exec_result = None
        self.exec_error = None
        self.exec_record_seq = None
        self.lifecycle = []
        self.pages = {}
        self.page_n = 0
        self.call_no = 0
        self.names = {}
        self.world_versions = []
        self.empty_served = set()
        self.inv_start_version = 0
        self._put({"Id": "exec-op-0", "Type": "EXECUTION", "Status": "STARTED", "Name": "exec",
                   "StartTimestamp": ts(world.clock.now),
                   "ExecutionDetails": {"InputPayload": json.dumps(input_obj)}})

    # ----------------------------------------------------------- primitives
    def _put(self, op):
        self.version += 1
        op["_v"] = self.version
        if op["Id"] not in self.ops:
            self.order.append(op["Id"])
            if op.get("Name") is not None and op["Name"] not in self.names:
                self.names[op["Name"]] = op["Id"]
        self.ops[op["Id"]] = op

    def by_name(self, name):
        oid = self.names.get(name)
        return None if oid is None else self.ops.get(oid)

    def find_branch(self, parent_name, index):
        par = self.by_name(parent_name)
        if par is None:
            return None
        for suffix in (f"parallel-branch-{index}", f"map-item-{index}"):
            for oid in self.order:
                op = self.ops[oid]
                if op.get("ParentId") == par["Id"] and op.get("Name") == suffix:
                    return op
        return None

    def _touch(self, op):
        self.version += 1
        op["_v"] = self.version

    def new_token(self):
        self.tok_n += 1
        tok = f"tok-{self.tok_n}"
        self.tokens[tok] = self.version
        self.latest_token = tok
        return tok

    def _timer(self, when, kind, op_id, data=None):
        self.tie += 1
        self.timers.append((when, self.tie, kind, op_id, data))
        self.timers.sort(key=lambda x: (x[0], x[1]))

    def next_event_time(self):
        return self.timers[0][0] if self.timers else None

    def wire(self, op, json_mode=False):
        out = {}
        for k, v in op.items():
            if k.startswith("_"):
                continue
            out[k] = copy.deepcopy(v)
        if json_mode:
            def ms(d, key):
                if d.get(key) is not None:
                    d[key] = int(d[key].timestamp() * 1000)
            ms(out, "StartTimestamp")
            ms(out, "EndTimestamp")
            if "StepDetails" in out:
                ms(out["StepDetails"], "NextAttemptTimestamp")
            if "WaitDetails" in out:
                ms(out["WaitDetails"], "ScheduledEndTimestamp")
        return out

    # ---------------------------------------------------------- world events
    def advance(self):
        """Apply every timer / external event that is due at the current virtual time."""
        now = self.w.clock.now
        while self.timers and self.timers[0][0] <= now + 1e-9:
            when, _, kind, op_id, data = self.timers.pop(0)
            op = self.ops.get(op_id)
            if op is None:
                continue
            st = op["Status"]
            if kind == "wait-end":
                if st == "STARTED":
                    op["Status"] = "SUCCEEDED"
                    op["EndTimestamp"] = ts(when)
                    self._touch(op)
                    self._world_rec("timer", op, "wait-end")
            elif kind == "retry-ready":
                if st == "PENDING":
                    op["Status"] = "READY"
                    self._touch(op)
                    self._world_rec("timer", op, "retry-ready")
            elif kind == "ext":
                if st == "STARTED" or (st == "PENDING" and op["Type"] == "CHAINED_INVOKE"):
                    self._external(op, data, when)
            elif kind == "invoke-running":
                if st == "PENDING":
                    op["Status"] = "STARTED"
                    self._touch(op)
                    self._world_rec("timer", op, "invoke-running", wake=False)
            elif kind == "cb-timeout":
                if st == "STARTED":
                    op["Status"] = "TIMED_OUT"
                    op["EndTimestamp"] = ts(when)
                    op["CallbackDetails"]["Error"] = {"ErrorMessage": "Callback timed out",
                                                      "ErrorType": "Callback.Timeout"}
                    self._touch(op)
                    self._world_rec("timer", op, "cb-timeout")

    def _world_rec(self, kind, op, what, wake=True):
        if wake:  # a change the backend invokes the function for
            self.world_versions.append(self.version)
        self.w.seq += 1
        self.w.trace.append({"s": self.w.seq, "i": self.w.inv, "t": -1, "k": "world", "what": what,
                             "id": op["Id"], "name": op.get("Name"), "status": op["Status"],
                             "vt": round(self.w.clock.now - self.w.t0, 6)})

    def _external(self, op, data, when):
        outcome = data["outcome"]
        det = "CallbackDetails" if op["Type"] == "CALLBACK" else "ChainedInvokeDetails"
        if outcome == "succeed":
            op["Status"] = "SUCCEEDED"
            if data.get("payload") is not None:
                op[det]["Result"] = data["payload"]
        else:
            op["Status"] = {"fail": "FAILED", "timeout": "TIMED_OUT", "cancel": "CANCELLED",
                            "stop": "STOPPED"}[outcome]
            if op["Type"] == "CHAINED_INVOKE" and op["Status"] == "CANCELLED":
                op["Status"] = "STOPPED"
            err = {"ErrorMessage": data.get("message", f"external {outcome}"),
                   "ErrorType": data.get("etype", "ExternalError")}
            if data.get("no_error"):
                err = None
            if err:
                op[det]["Error"] = err
        op["EndTimestamp"] = ts(when)
        self._touch(op)
        self._world_rec("ext", op, "external-" + outcome)

    def ext_script(self, name):
        ex = self.w.externals
        if name in ex:
            return ex[name]
        if name and name.endswith(" create callback id"):
            base = name[: -len(" create callback id")]
            if base in ex:
                return ex[base]
        return {"outcome": "succeed", "delay": 1.0, "payload": json.dumps("ext-ok")}

    def notify_submitted(self, callback_id):
        """wait_for_callback submitter ran: the external party now knows the id."""
        for op in self.ops.values():
            if op["Type"] == "CALLBACK" and op["CallbackDetails"]["CallbackId"] == callback_id:
                if op.get("_ext_armed") or op["Status"] != "STARTED":
                    return
                sc = self.ext_script(op.get("Name"))
                if sc["outcome"] == "never":
                    return
                op["_ext_armed"] = True
                self._timer(self.w.clock.now + sc.get("delay", 1.0), "ext", op["Id"], sc)
                return

    # ------------------------------------------------------------ transitions
    def _bad(self, upd, why, op):
        self.lifecycle.append({"seq": self.w.seq, "inv": self.w.inv, "why": why, "id": upd.get("Id"),
                               "name": upd.get("Name"), "type": upd.get("Type"), "action": upd.get("Action"),
                               "status": None if op is None else op["Status"]})
        self.w.hit("lifecycle-bad")

    def ancestors_terminal(self, parent_id):
        seen = 0
        while parent_id and seen < 64:
            p = self.ops.get(parent_id)
            if p is None:
                return None
            if p["Type"] == "CONTEXT" and p["Status"] in TERMINAL:
                return p
            parent_id = p.get("ParentId")
            seen += 1
        return None

    def apply(self, upd, call_no):
        """Apply one OperationUpdate wire dict. Invalid updates are recorded, then applied
        best-effort (lenient) so one defect does not mask the next."""
        now = self.w.clock.now
        typ, act, oid = upd["Type"], upd["Action"], upd["Id"]
        op = self.ops.get(oid)
        prev = None if op is None else op["Status"]
        under = self.ancestors_terminal(upd.get("ParentId"))
        ok = True
        if self.exec_status != "RUNNING" and self.exec_record_seq is not None:
            self._bad(upd, "after-execution-result", op)
        if typ == "EXECUTION":
            if self.exec_record_seq is not None:
                self._bad(upd, "second-execution-result", op)
            else:
                self.exec_record_seq = self.w.seq + 1
                if act == "SUCCEED":
                    self.exec_status, self.exec_result = "SUCCEEDED", upd.get("Payload")
                elif act == "FAIL":
                    self.exec_status, self.exec_error = "FAILED", upd.get("Error")
                else:
                    self._bad(upd, "bad-execution-action", op)
            self._log_applied(upd, call_no, prev, self.exec_status, under)
            return
        if op is not None:
            for key in ("Type", "ParentId", "Name", "SubType"):
                if upd.get(key) != op.get(key):
                    self._bad(upd, f"unstable-{key}", op)
                    break
        if upd.get("ParentId"):
            par = self.ops.get(upd["ParentId"])
            if par is None or par["Type"] != "CONTEXT":
                self._bad(upd, "parent-missing", op)
        if op is None and act != "START":
            self._bad(upd, "first-update-not-start", op)
            ok = False
        if op is not None and prev in TERMINAL:
            self._bad(upd, "update-after-terminal", op)
            self._log_applied(upd, call_no, prev, prev, under, rejected=True)
            return
        if op is not None and prev == "PENDING":
            self._bad(upd, "update-while-pending", op)
            self._log_applied(upd, call_no, prev, prev, under, rejected=True)
            return
        if op is None:
            op = {"Id": oid, "Type": typ, "Status": "STARTED", "StartTimestamp": ts(now)}
            for key in ("ParentId", "Name", "SubType"):
                if upd.get(key):
                    op[key] = upd[key]
            if typ == "STEP":
                op["StepDetails"] = {"Attempt": 0}
            elif typ == "CONTEXT":
                op["ContextDetails"] = {}
            elif typ == "WAIT":
                op["WaitDetails"] = {}
            elif typ == "CALLBACK":
                op["CallbackDetails"] = {"CallbackId": f"cb-{len(self.order)}-{oid[:8]}"}
            elif typ == "CHAINED_INVOKE":
                op["ChainedInvokeDetails"] = {}
            fresh = True
        else:
            fresh = False
        if act == "START":
            if not fresh and not (typ == "STEP" and prev == "READY"):
                self._bad(upd, "duplicate-start", op)
            op["Status"] = "STARTED"
            if fresh:
                if typ == "WAIT":
                    secs = (upd.get("WaitOptions") or {}).get("WaitSeconds", 1)
                    op["WaitDetails"]["ScheduledEndTimestamp"] = ts(now + secs)
                    self._timer(now + secs, "wait-end", oid)
                elif typ == "CALLBACK":
                    co = upd.get("CallbackOptions") or {}
                    tos = [x for x in (co.get("TimeoutSeconds", 0), co.get("HeartbeatTimeoutSeconds", 0)) if x]
                    if tos:
                        self._timer(now + min(tos), "cb-timeout", oid)
                    sc = self.ext_script(upd.get("Name"))
                    op["_script"] = sc
                    if sc["outcome"] != "never" and not sc.get("on_submit"):
                        op["_ext_armed"] = True
                        self._timer(now + sc.get("delay", 1.0), "ext", oid, sc)
                elif typ == "CHAINED_INVOKE":
                    op["_payload"] = upd.get("Payload")
                    op["_options"] = upd.get("ChainedInvokeOptions")
                    sc = self.ext_script(upd.get("Name"))
                    if sc.get("pending_for"):
                        # accepted but not running yet: the backend reports the chained invoke PENDING for a while
                        op["Status"] = "PENDING"
                        self._timer(now + sc["pending_for"], "invoke-running", oid)
                    if sc["outcome"] != "never":
                        self._timer(now + sc.get("delay", 1.0), "ext", oid, sc)
        elif act == "RETRY":
            if typ != "STEP":
                self._bad(upd, "retry-non-step", op)
            if ok and prev == "READY":
                self._bad(upd, "attempt-not-started", op)  # every attempt has its own START
            elif ok and prev != "STARTED":
                self._bad(upd, "retry-from-" + str(prev), op)
            delay = (upd.get("StepOptions") or {}).get("NextAttemptDelaySeconds", 0)
            if delay < 1:
                self._bad(upd, "retry-delay-below-1", op)
            sd = op.setdefault("StepDetails", {"Attempt": 0})
            sd["Attempt"] = sd.get("Attempt", 0) + 1
            sd["NextAttemptTimestamp"] = ts(now + max(delay, 0))
            if upd.get("Payload") is not None:
                sd["Result"] = upd["Payload"]
            if upd.get("Error") is not None:
                sd["Error"] = upd["Error"]
            op["Status"] = "PENDING"
            self._timer(now + max(delay, 0), "retry-ready", oid)
        elif act in ("SUCCEED", "FAIL"):
            if typ not in ("STEP", "CONTEXT"):
                self._bad(upd, "finish-" + typ, op)
            if ok and prev == "READY":
                self._bad(upd, "attempt-not-started", op)
            elif ok and prev != "STARTED":
                self._bad(upd, "finish-from-" + str(prev), op)
            det = op.setdefault("StepDetails" if typ == "STEP" else "ContextDetails", {})
            if act == "SUCCEED":
                op["Status"] = "SUCCEEDED"
                if upd.get("Payload") is not None:
                    det["Result"] = upd["Payload"]
                if typ == "CONTEXT" and (upd.get("ContextOptions") or {}).get("ReplayChildren"):
                    det["ReplayChildren"] = True
            else:
                op["Status"] = "FAILED"
                if upd.get("Error") is not None:
                    det["Error"] = upd["Error"]
            op["EndTimestamp"] = ts(now)
        else:
            self._bad(upd, "unknown-action", op)
        self._put(op) if fresh else self._touch(op)
        self._log_applied(upd, call_no, prev, op["Status"], under)
        # zero-delay external completion: visible in the START response itself
        self.advance()

    def _log_applied(self, upd, call_no, prev, after, under, rejected=False):
        self.w.seq += 1
        t = _sim.current_thread()
        size = len(upd.get("Payload") or "")
        ev = {"s": self.w.seq, "i": self.w.inv, "t": t.idx if t else -1, "k": "applied", "call": call_no,
              "id": upd["Id"], "type": upd["Type"], "action": upd["Action"], "name": upd.get("Name"),
              "parent": upd.get("ParentId"), "sub": upd.get("SubType"), "prev": prev, "after": after,
              "size": size, "rejected": rejected, "vt": round(self.w.clock.now - self.w.t0, 6)}
        if under is not None:
            ev["under_done"] = under["Id"]
            ev["under_name"] = under.get("Name")
        if upd["Type"] == "EXECUTION" and upd.get("Payload"):
            import hashlib
            try:
                canon_json = json.dumps(json.loads(upd["Payload"]))
                ev["jdigest"] = hashlib.blake2b(canon_json.encode(), digest_size=8).hexdigest()
            except (ValueError, TypeError):
                ev["jdigest"] = None
        if upd.get("StepOptions"):
            ev["delay"] = upd["StepOptions"].get("NextAttemptDelaySeconds")
        if upd.get("ContextOptions"):
            ev["replay_children"] = bool(upd["ContextOptions"].get("ReplayChildren"))
        if size <= 400:
            ev["payload"] = upd.get("Payload")
        if upd.get("Error"):
            ev["error"] = upd["Error"]
        if upd.get("ChainedInvokeOptions"):
            ev["invoke"] = upd["ChainedInvokeOptions"]
        if upd.get("WaitOptions"):
            ev["wait"] = upd["WaitOptions"].get("WaitSeconds")
        self.w.trace.append(ev)
        self.applied.append(ev)

    # ------------------------------------------------------------ invocation
    def build_event(self, first_page):
        self.advance()
        tok = self.new_token()
        self.inv_start_version = self.version
        ids = list(self.order)
        first = ids[: max(1, first_page)]
        if self.w.cfg.get("empty_first_page") and self.w.inv > 1:
            first = []  # "due to payload size limitations we may have an empty operations list"
            self.w.hit("empty-first-page")
        rest = ids[len(first):]
        marker = ""
        if rest:
            marker = self._store_page(rest)
        ev = {"DurableExecutionArn": self.arn, "CheckpointToken": tok,
              "InitialExecutionState": {"Operations": [self.wire(self.ops[i], True) for i in first],
                                        "NextMarker": marker}}
        return json.loads(json.dumps(ev)), [self.ops[i]["Id"] for i in ids]

    def _store_page(self, ids):
        self.page_n += 1
        m = f"page-{self.page_n}"
        self.pages[m] = list(ids)
        return m


class FakeLambdaClient:
    """Duck-typed boto3 Lambda client in front of the reference backend."""

    def __init__(self, world):
        self.w = world
        self.be = world.backend

    def _latency(self, which):
        w = self.w
        lat = w.cfg.get("latency")
        if not lat:
            return 0.0
        rng = w.lat_rng
        lo, hi = lat
        return lo + (hi - lo) * rng.random()

    def _prologue(self, opname, n_updates, token, kinds=None):
        w = self.w
        w.api_calls += 1
        k = w.api_calls
        w.rec("api-begin", call=k, op=opname, n=n_updates, token=token, kinds=kinds)
        d = self._latency(0)
        f = w.take_fault(lambda f: f["kind"] == "slow" and f.get("call") == k)
        if f:
            w.fire("slow-call")
            d += f["s"]
        if d > 0:
            w.sim.sleep(d, True, f"api-latency({opname})")
        f = w.take_fault(lambda f: f["kind"] == "crash" and f.get("at") == "api" and f.get("call") == k
                         and f.get("phase") == "before")
        if f:
            w.crash_here("api-before")
        f = w.take_fault(lambda f: f["kind"] == "apierr" and f.get("call") == k and not f.get("applied"))
        if f:
            w.fire("apierr:" + f["err"])
            w.rec("api-end", call=k, ok=False, err=f["err"], applied=False)
            raise make_client_error(f["err"])
        return k

    def _epilogue(self, k, n_ops, ops=()):
        w = self.w
        f = w.take_fault(lambda f: f["kind"] == "crash" and f.get("at") == "api" and f.get("call") == k
                         and f.get("phase") == "after")
        if f:
            w.crash_here("api-lost-ack")
        f = w.take_fault(lambda f: f["kind"] == "apierr" and f.get("call") == k and f.get("applied"))
        if f:
            w.fire("apierr-applied:" + f["err"])
            w.rec("api-end", call=k, ok=False, err=f["err"], applied=True)
            raise make_client_error(f["err"])
        d = self._latency(1)
        if d > 0:
            w.sim.sleep(d, True, "api-latency(resp)")
        w.rec("api-end", call=k, ok=True, n_ops=n_ops, ops=[list(x) for x in ops])

    def checkpoint_durable_execution(self, DurableExecutionArn, CheckpointToken, Updates, **kw):  # noqa: N803
        w, be = self.w, self.be
        k = self._prologue("checkpoint", len(Updates), CheckpointToken, kinds=[[u.get("Type"), u.get("Action"), u.get("Id"), u.get("Name")] for u in Updates])
        be.advance()
        if CheckpointToken != be.latest_token:
            w.hit("stale-token")
            w.rec("api-end", call=k, ok=False, err="stale-token", applied=False,
                  presented=CheckpointToken, expected=be.latest_token)
            raise make_client_error("400tok")
        limit = w.cfg.get("api_max_updates", 250)
        if len(Updates) > limit:
            w.rec("api-end", call=k, ok=False, err="too-many-updates", applied=False)
            raise make_client_error("400")
        mark = be.tokens.get(CheckpointToken, 0)
        for u in Updates:
            be.apply(dict(u), k)
        be.advance()
        changed = [be.ops[i] for i in be.order if be.ops[i]["_v"] > mark]
        tok = be.new_token()
        page = w.cfg.get("resp_page")
        ops = changed
        marker = None
        if page and len(changed) > page:
            ops = changed[:page]
            marker = be._store_page([o["Id"] for o in changed[page:]])
            w.hit("resp-paginated")
        out = {"CheckpointToken": tok,
               "NewExecutionState": {"Operations": [be.wire(o) for o in ops]}}
        if marker:
            out["NewExecutionState"]["NextMarker"] = marker
        self._epilogue(k, len(ops), [(o["Id"], o["Status"]) for o in ops])
        return out

    def get_durable_execution_state(self, DurableExecutionArn, CheckpointToken, Marker, MaxItems=1000, **kw):  # noqa: N803
        w, be = self.w, self.be
        k = self._prologue("get", 0, CheckpointToken)
        ids = be.pages.get(Marker)
        if ids is None:
            w.rec("api-end", call=k, ok=False, err="bad-marker", applied=False)
            raise make_client_error("400")
        page = w.cfg.get("state_page") or 1000
        if w.cfg.get("empty_mid_page") and Marker not in be.empty_served and len(ids) > 0:
            be.empty_served.add(Marker)
            out = {"Operations": [], "NextMarker": be._store_page(ids)}
            be.empty_served.add(out["NextMarker"])
            w.hit("empty-middle-page")
            self._epilogue(k, 0, [])
            return out
        cur, rest = ids[:page], ids[page:]
        out = {"Operations": [be.wire(be.ops[i]) for i in cur]}
        if rest:
            out["NextMarker"] = be._store_page(rest)
        w.hit("get-state-page")
        self._epilogue(k, len(cur), [(i, be.ops[i]["Status"]) for i in cur])
        return out
