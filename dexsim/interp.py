"""Deterministic "user code": interprets a JSON workflow program through the public
DurableContext API and records probes. See DESIGN.md section 4."""

from __future__ import annotations

import datetime as _dt
import decimal
import uuid

from dexsim import seams
from dexsim import sim as _sim


class UserErrA(Exception):
    pass


class UserErrB(Exception):
    pass


def exc_class(name):
    ex = seams.sdk("exceptions")
    table = {
        "ValueError": ValueError, "RuntimeError": RuntimeError, "KeyError": KeyError,
        "TimeoutError": TimeoutError, "TypeError": TypeError, "UserErrA": UserErrA, "UserErrB": UserErrB,
        "ZeroDivisionError": ZeroDivisionError,
        "CallableRuntimeError": ex.CallableRuntimeError, "CallbackError": ex.CallbackError,
        "ExecutionError": ex.ExecutionError, "InvocationError": ex.InvocationError,
        "ValidationError": ex.ValidationError, "SerDesError": ex.SerDesError,
        "StepInterruptedError": ex.StepInterruptedError,
        "NonDeterministicExecutionError": ex.NonDeterministicExecutionError,
        "InvalidStateError": ex.InvalidStateError, "DurableExecutionsError": ex.DurableExecutionsError,
        "Exception": Exception,
    }
    return table[name]


def make_exc(name, msg, args=None):
    cls = exc_class(name)
    if args is not None and name != "CallableRuntimeError":
        # exception arguments of any shape: KeyError(404), ValueError(), RuntimeError("a", uuid) ...
        return cls(*[mkvalue(a) for a in args])
    if name == "CallableRuntimeError":
        return cls(msg, "UserType", None, None)
    return cls(msg)


# ------------------------------------------------------------------ values
def mkvalue(spec):
    """Build a Python value from a JSON value spec [kind, payload]."""
    k = spec[0]
    if k == "none":
        return None
    if k in ("int", "bool", "float", "str"):
        return spec[1]
    if k == "bytes":
        return bytes.fromhex(spec[1])
    if k == "uuid":
        return uuid.UUID(spec[1])
    if k == "dec":
        return decimal.Decimal(spec[1])
    if k == "dt":
        return _dt.datetime.fromisoformat(spec[1])
    if k == "date":
        return _dt.date.fromisoformat(spec[1])
    if k == "list":
        return [mkvalue(x) for x in spec[1]]
    if k == "tuple":
        return tuple(mkvalue(x) for x in spec[1])
    if k == "dict":
        return {kk: mkvalue(v) for kk, v in spec[1].items()}
    if k == "big":
        return "x" * int(spec[1])
    if k == "bigu":  # non-ASCII text: 1 character = 3 UTF-8 bytes = 6 escaped JSON characters
        return "\u65e5" * int(spec[1])
    if k == "kdict":  # a dict with a key JSON cannot encode (tuple / bytes / frozenset), optionally nested
        key = {"tuple": ("eu", "order-17"), "bytes": b"k", "frozenset": frozenset({1})}[spec[1]]
        d = {key: "shipped", "count": 1}
        return {"outer": [d]} if len(spec) > 2 and spec[2] else d
    if k == "set":  # not serialisable by the default serdes
        return {1, 2}
    if k == "obj":  # not JSON-serialisable at all
        return object()
    raise ValueError(f"bad value spec {spec!r}")


def canon(v):
    """Type-exact canonical form (lists/str/int/float/bool/None only)."""
    if v is None:
        return ["none"]
    if isinstance(v, bool):
        return ["bool", v]
    if isinstance(v, int):
        return ["int", v]
    if isinstance(v, float):
        return ["float", repr(v)]
    if isinstance(v, str):
        if len(v) > 64:
            import hashlib
            return ["str#", len(v), hashlib.blake2b(v.encode(), digest_size=8).hexdigest()]
        return ["str", v]
    if isinstance(v, (bytes, bytearray)):
        return ["bytes", bytes(v).hex()]
    if isinstance(v, uuid.UUID):
        return ["uuid", str(v)]
    if isinstance(v, decimal.Decimal):
        return ["dec", str(v)]
    if isinstance(v, _dt.datetime):
        return ["dt", v.isoformat()]
    if isinstance(v, _dt.date):
        return ["date", v.isoformat()]
    if isinstance(v, list):
        return ["list", [canon(x) for x in v]]
    if isinstance(v, tuple):
        return ["tuple", [canon(x) for x in v]]
    if isinstance(v, dict):
        return ["dict", [[canon(k), canon(x)] for k, x in v.items()]]
    models = seams.sdk("concurrency.models")
    if isinstance(v, models.BatchResult):
        items = []
        for it in v.all:
            err = None
            if it.error is not None:
                err = [it.error.type, it.error.message]
            items.append([it.index, it.status.value, canon(it.result), err])
        return ["batch", v.completion_reason.value, items]
    ctxmod = seams.sdk("context")
    if isinstance(v, ctxmod.Callback):
        return ["callback", v.callback_id]
    return ["?" + type(v).__name__, repr(v)[:80]]


def _scribble(v):
    """User code may change a value it got from a durable call in place; what the call delivers on a
    replay must not depend on that (e.g. through a shared cached object)."""
    try:
        if isinstance(v, list):
            v.append("__scribbled__")
        elif isinstance(v, dict):
            v["__scribbled__"] = True
        elif hasattr(v, "all") and isinstance(getattr(v, "all"), list):
            for it in v.all:
                if isinstance(getattr(it, "result", None), (list, dict)):
                    _scribble(it.result)
    except Exception:  # noqa: BLE001 - frozen / odd containers: nothing to do
        pass


class XSerDes:
    """Custom SerDes used for invoke payload/result variants: 'X' + JSON."""

    def __init__(self, base):
        self._base = base

    def serialize(self, value, ctx=None):
        import json as _json
        return "X" + _json.dumps(value)

    def deserialize(self, data, ctx=None):
        import json as _json
        if not data.startswith("X"):
            raise ValueError("not an X payload")
        return _json.loads(data[1:])


_XS = {}


def _x_serdes(serdes_mod):
    """An instance of a real SerDes subclass (the SDK type-checks nothing, but stay honest)."""
    if "cls" not in _XS:
        class _X(serdes_mod.SerDes):
            def serialize(self, value, serdes_context):
                import json as _json
                return "X" + _json.dumps(value)

            def deserialize(self, data, serdes_context):
                import json as _json
                if not data.startswith("X"):
                    raise ValueError("not an X payload")
                return _json.loads(data[1:])
        _XS["cls"] = _X
    return _XS["cls"]()


def _flaky_serdes(serdes_mod, w, pos, spec):
    """A custom SerDes as a user would write one around an external store: the SDK's extended codec behind a prefix,
    with scripted transient failures. `spec` = {"ser": [k...], "de": [k...]}: the k-th serialize / deserialize call of this
    statement (counted over the whole execution, the counter lives in the world) raises."""
    if "flaky" not in _XS:
        class _Flaky(serdes_mod.SerDes):
            def __init__(self, w, pos, spec):
                self._w, self._pos, self._spec = w, pos, spec

            def _count(self, which):
                c = self._w.serdes_calls.setdefault(self._pos, {"ser": 0, "de": 0, "det": 0})
                c[which] += 1
                hit = c[which] in self._spec.get(which, ())
                if which == "de" and self._spec.get("det"):
                    # "det": the k-th decode of the recorded outcome of an operation that is already complete
                    rec = self._w.backend.by_name(self._pos.split("#")[0])
                    if rec is not None and rec["Status"] in ("SUCCEEDED", "FAILED", "TIMED_OUT", "STOPPED", "CANCELLED"):
                        c["det"] += 1
                        hit = hit or c["det"] in self._spec["det"]
                if hit:
                    self._w.fire("serdes-error:" + which)
                    self._w.rec("serdes-fail", pos=self._pos, which=which, n=c[which])
                    msg = f"blob store {'write' if which == 'ser' else 'read'} failed"
                    if self._spec.get("cls"):
                        # a store client that asks for the invocation to be retried (the SDK's InvocationError family)
                        raise make_exc(self._spec["cls"], msg)
                    raise OSError(msg)

            def serialize(self, value, serdes_context):
                self._count("ser")
                if self._spec.get("norm"):
                    # a plain-JSON codec: what it restores is a normal form of what it was given (tuples come back as lists)
                    import json as _json
                    return self._spec.get("tag", "F") + _json.dumps(value)
                return self._spec.get("tag", "F") + serdes_mod.EXTENDED_TYPES_SERDES.serialize(value, serdes_context)

            def deserialize(self, data, serdes_context):
                self._count("de")
                tag = self._spec.get("tag", "F")
                if not data.startswith(tag):
                    # e.g. an external party answering a callback in another encoding
                    self._w.rec("serdes-fail", pos=self._pos, which="format", n=0)
                    raise ValueError(f"not a {tag} payload")
                if self._spec.get("norm"):
                    import json as _json
                    return _json.loads(data[1:])
                return serdes_mod.EXTENDED_TYPES_SERDES.deserialize(data[1:], serdes_context)
        _XS["flaky"] = _Flaky
    return _XS["flaky"](w, pos, spec)


class _EqCallable:
    """A callable value object: equality and hash by specification, not by identity."""

    def __init__(self, key, fn):
        self.key, self.fn = key, fn

    def __call__(self, ctx):
        return self.fn(ctx)

    def __eq__(self, other):
        return isinstance(other, _EqCallable) and other.key == self.key

    def __hash__(self):
        return hash(self.key)


def _digest(s):
    import hashlib
    return hashlib.blake2b(s.encode(), digest_size=8).hexdigest()


class CapLogger:
    """Capturing LoggerInterface installed with set_logger."""

    def __init__(self, world):
        self.w = world

    def _log(self, level, msg, args, extra):
        self.w.rec("log", level=level, msg=str(msg), extra=dict(extra or {}))

    def debug(self, msg, *a, extra=None):
        self._log("debug", msg, a, extra)

    def info(self, msg, *a, extra=None):
        self._log("info", msg, a, extra)

    def warning(self, msg, *a, extra=None):
        self._log("warning", msg, a, extra)

    def error(self, msg, *a, extra=None):
        self._log("error", msg, a, extra)

    def exception(self, msg, *a, extra=None):
        self._log("exception", msg, a, extra)


class Interp:
    def __init__(self, world, program):
        self.w = world
        self.prog = program
        self.cfgmod = seams.sdk("config")
        self.ctxmod = seams.sdk("context")
        self.last_raw = {}
        self.cbs = {}  # label -> (Callback created by a cbdefer statement in THIS invocation, its position)
        self.exc = seams.sdk("exceptions")
        self.retries = seams.sdk("retries")
        self.waits = seams.sdk("waits")
        self.serdes = seams.sdk("serdes")

    # ------------------------------------------------------------ handler
    def handler(self, event, context):
        w = self.w
        if self.prog.get("logger", True):
            context.set_logger(CapLogger(w))
        w.rec("handler-enter", event=canon(event))
        mode = self.prog.get("ret", "obs")
        try:
            obs = self.run_seq(context, self.prog["body"], "r")
        except BaseException as e:  # noqa: BLE001 - probe: the instant at which user code stopped (suspension, error)
            if type(e).__name__ != "SimKilled":
                w.rec("handler-done", how=type(e).__name__)
            raise
        w.rec("handler-done", how="return")
        if mode == "obs":
            res = obs
        elif isinstance(mode, list):
            res = mkvalue(mode)
        else:
            res = None
        try:
            import json as _json
            sj = _json.dumps(res)
            w.rec("handler-exit", size=len(sj), digest=_digest(sj), serialisable=True,
                  size_min=min(len(sj), len(_json.dumps(res, ensure_ascii=False).encode())))
        except (TypeError, ValueError):
            w.rec("handler-exit", size=None, digest=None, serialisable=False)
        return res

    # ------------------------------------------------------------ sequence
    def run_seq(self, ctx, seq, prefix, item=None):
        out = []
        for n, st in enumerate(seq):
            out.append(self.run_stmt(ctx, st, f"{prefix}.{n}", item))
        return out

    def run_stmt(self, ctx, st, pos, item):
        op = st["op"]
        if op == "try":
            classes = tuple(exc_class(c) for c in st["catch"])
            try:
                return self.run_stmt(ctx, st["stmt"], pos + "t", item)
            except classes as e:  # noqa: BLE001 - scripted user try/except by class
                self.w.rec("caught", pos=pos, cls=type(e).__name__, msg=str(e))
                h = self.run_seq(ctx, st.get("handler", []), pos + "/h", item)
                return ["caught", type(e).__name__, str(e), h]
        if op == "log":
            self.w.rec("log-call", pos=pos)
            getattr(ctx.logger, st.get("level", "info"))(f"L:{pos}")
            return ["log"]
        if op == "raise":
            ex_ = make_exc(st["cls"], st.get("msg", "user raise at " + pos) if "size" not in st else ("\u65e5" if st.get("uni") else '"\n' if st.get("esc") else "E") * st["size"], st.get("args"))
            self.w.rec("user-raise", pos=pos, cls=st["cls"], inv_level=isinstance(ex_, self.exc.InvocationError))
            raise ex_
        if op == "pause":
            # plain user code that takes time between two durable calls
            self.w.rec("pause", pos=pos, s=st["s"])
            self.w.sim.sleep(st["s"], True, "user-code")
            return ["pause"]
        if op == "item":
            return canon(item)
        meth = getattr(self, "op_" + op)
        w = self.w
        if "ext" in st and pos not in w.externals:
            w.externals[pos] = st["ext"]
        if op == "cbresult":
            w.rec("call-begin", pos=pos, op=op, ref=(self.cbs.get(st["ref"]) or (None, None))[1])
        else:
            w.rec("call-begin", pos=pos, op=op)
        try:
            v = meth(ctx, st, pos, item)
        except (self.exc.SuspendExecution, self.exc.OrphanedChildException, self.exc.BackgroundThreadError) as e:
            w.rec("call-abort", pos=pos, op=op, cls=type(e).__name__, inner=bool(getattr(e, "_dexsim_inner", False)))
            raise
        except _sim.SimKilled:
            raise
        except BaseException as e:  # noqa: BLE001
            w.rec("call-raise", pos=pos, op=op, cls=type(e).__name__, msg=str(e),
                  etype=getattr(e, "error_type", None), inner=bool(getattr(e, "_dexsim_inner", False)),
                  inv_level=isinstance(e, self.exc.InvocationError))
            raise
        c = canon(v)
        w.rec("call-ret", pos=pos, op=op, v=c)
        t = _sim.current_thread()
        self.last_raw[t.idx if t else -1] = v  # for bodies that return what their last durable call returned (ret: ["last"])
        _scribble(v)
        return c

    # ------------------------------------------------------- user functions
    def _user_fn(self, pos, spec, fnkind, extra_logger=None, recname=None):
        """Run scripted behaviour of a user function; returns value or raises."""
        w = self.w
        be = w.backend
        w.fn_entries += 1
        j = w.fn_entries
        rec = be.by_name(recname or pos)
        attempt = 1
        status = None
        if rec is not None:
            status = rec["Status"]
            attempt = (rec.get("StepDetails") or {}).get("Attempt", 0) + 1
        beh_list = spec.get("attempts") or [{"do": "ret", "v": ["str", "v:" + pos]}]
        beh = beh_list[min(attempt, len(beh_list)) - 1]
        w.entry_counts[pos] = w.entry_counts.get(pos, 0) + 1
        w.rec("fn-enter", pos=pos, fn=fnkind, n=j, attempt=attempt, status=status,
              exists=rec is not None)
        if w.take_fault(lambda f: f["kind"] == "crash" and f.get("at") == "fn" and f.get("n") == j
                        and f.get("phase") == "entry"):
            w.crash_here("fn-entry")
        if extra_logger is not None and beh.get("log", spec.get("log")):
            w.rec("log-call", pos=pos + "#fn")
            extra_logger.info(f"L:{pos}#fn")
        blk = beh.get("block", 0)
        inside = w.take_fault(lambda f: f["kind"] == "crash" and f.get("at") == "fn" and f.get("n") == j
                              and f.get("phase") == "inside")
        if inside:
            if blk:
                w.sim.sleep(blk / 2.0, True, "user-fn")
            w.crash_here("fn-inside")
        if blk:
            w.sim.sleep(blk, True, "user-fn")
        else:
            cur = w.sim.cur()
            if cur is not None:
                w.sim.yield_point(cur, "user-fn")
        if w.take_fault(lambda f: f["kind"] == "crash" and f.get("at") == "fn" and f.get("n") == j
                        and f.get("phase") == "exit"):
            w.crash_here("fn-exit")
        if beh["do"] == "raise":
            if "size" in beh:  # a huge message, given by its length
                w.rec("fn-exit", pos=pos, n=j, attempt=attempt, outcome="raise", cls=beh["cls"], msg=f"E*{beh['size']}")
                raise make_exc(beh["cls"], ("\u65e5" if beh.get("uni") else "E") * beh["size"])
            w.rec("fn-exit", pos=pos, n=j, attempt=attempt, outcome="raise", cls=beh["cls"], msg=beh.get("msg", "boom"))
            raise make_exc(beh["cls"], beh.get("msg", "boom"), beh.get("args"))
        v = mkvalue(beh["v"])
        w.rec("fn-exit", pos=pos, n=j, attempt=attempt, outcome="ret", v=canon(v))
        return v

    def _retry_strategy(self, pos, rs, recname=None):
        if rs is None:
            return None
        R = self.retries
        D = self.cfgmod.Duration
        kind = rs["kind"]
        if kind == "preset":
            inner = getattr(R.RetryPresets, rs["name"])()
        elif kind == "cfg":
            kw = {}
            if "max_attempts" in rs:
                kw["max_attempts"] = rs["max_attempts"]
            if "initial" in rs:
                kw["initial_delay"] = D(seconds=rs["initial"])
            if "max" in rs:
                kw["max_delay"] = D(seconds=rs["max"])
            if "rate" in rs:
                kw["backoff_rate"] = rs["rate"]
            if "jitter" in rs:
                kw["jitter_strategy"] = self.cfgmod.JitterStrategy(rs["jitter"])
            if "errors" in rs:
                kw["retryable_errors"] = list(rs["errors"])
            if "types" in rs:
                kw["retryable_error_types"] = [exc_class(c) for c in rs["types"]]
            inner = R.create_retry_strategy(R.RetryStrategyConfig(**kw))
        elif kind == "script":
            decs = rs["decisions"]

            def inner(err, attempts_made):
                d = decs[min(attempts_made, len(decs)) - 1]
                if "retry" in d:
                    return R.RetryDecision.retry(D(seconds=d["retry"]))
                return R.RetryDecision.no_retry()
        else:
            raise ValueError(kind)
        w = self.w

        def strategy(err, attempts_made):
            from dexsim import simtime as _st
            draws = _st.random_ns.observe()
            try:
                dec = inner(err, attempts_made)
            finally:
                _st.random_ns.unobserve()
            rec = w.backend.by_name(recname or pos)
            be_att = None if rec is None else (rec.get("StepDetails") or {}).get("Attempt", 0)
            w.rec("strategy", pos=pos, attempts_made=attempts_made, err=type(err).__name__, msg=str(err),
                  retry=bool(dec.should_retry), delay=dec.delay_seconds, be_attempt=be_att,
                  be_status=None if rec is None else rec["Status"], draws=list(draws))
            return dec

        return strategy

    # ---------------------------------------------------------- operations
    def op_step(self, ctx, st, pos, item):
        C = self.cfgmod
        sem = C.StepSemantics.AT_MOST_ONCE_PER_RETRY if st.get("sem") == "amo" else C.StepSemantics.AT_LEAST_ONCE_PER_RETRY
        cfg = C.StepConfig(retry_strategy=self._retry_strategy(pos, st.get("retry")), step_semantics=sem, serdes=self._fserdes(st, pos))

        def fn(step_ctx):
            # (getattr: a decorated function may be handed something else than a StepContext by a broken decorator)
            return self._user_fn(pos, st.get("fn", {}), "step", getattr(step_ctx, "logger", None))

        plain = not any(k in st for k in ("retry", "sem", "fserdes")) and not any(
            a["do"] == "raise" for a in st.get("fn", {}).get("attempts", []))
        if st.get("deco"):
            # @durable_step: the operation takes its name from the decorated function
            def named(step_ctx, tag=None):  # the decorator binds extra arguments; this one has a default
                return fn(step_ctx)
            named.__name__ = pos
            bound = self.ctxmod.durable_step(named)(pos)
            return ctx.step(bound) if plain else ctx.step(bound, config=cfg)
        if plain:
            return ctx.step(fn, name=pos)  # no StepConfig at all: the SDK's defaults
        return ctx.step(fn, name=pos, config=cfg)

    def op_wait(self, ctx, st, pos, item):
        return ctx.wait(self.cfgmod.Duration(seconds=st["s"]), name=pos)

    def op_callback(self, ctx, st, pos, item):
        C = self.cfgmod
        c = st.get("cfg") or {}
        cfg = C.CallbackConfig(timeout=C.Duration(seconds=c.get("timeout", 0)),
                               heartbeat_timeout=C.Duration(seconds=c.get("hb", 0)), serdes=self._fserdes(st, pos))
        if not c and "fserdes" not in st:
            cb = ctx.create_callback(name=pos)  # no CallbackConfig at all
        else:
            cb = ctx.create_callback(name=pos, config=cfg)
        self.w.rec("cb-created", pos=pos, callback_id=cb.callback_id)
        try:
            between = self.run_seq(ctx, st.get("between", []), pos + "/w", item)
        except BaseException as e:  # noqa: BLE001 - tag: did not come from result()
            try:
                e._dexsim_inner = True
            except AttributeError:
                pass
            raise
        self.w.rec("cb-result-call", pos=pos)
        res = cb.result()
        return ["cb", between, res]  # the backend-issued id is not part of the observation (it differs between executions)

    def op_cbdefer(self, ctx, st, pos, item):
        """create_callback now, result() somewhere else (statement cbresult with the same label)."""
        C = self.cfgmod
        c = st.get("cfg") or {}
        if c:
            cb = ctx.create_callback(name=pos, config=C.CallbackConfig(timeout=C.Duration(seconds=c.get("timeout", 0)),
                                                                       heartbeat_timeout=C.Duration(seconds=c.get("hb", 0))))
        else:
            cb = ctx.create_callback(name=pos)
        self.w.rec("cb-created", pos=pos, callback_id=cb.callback_id)
        self.cbs[st["label"]] = (cb, pos)
        return ["cbd"]

    def op_cbresult(self, ctx, st, pos, item):
        ent = self.cbs.get(st["ref"])
        if ent is None:
            raise RuntimeError(f"no callback labelled {st['ref']} was created in this invocation")  # only after minimisation
        self.w.rec("cb-result-call", pos=pos)
        return ent[0].result()

    def op_wfc(self, ctx, st, pos, item):
        C = self.cfgmod
        c = st.get("cfg") or {}
        cfg = C.WaitForCallbackConfig(timeout=C.Duration(seconds=c.get("timeout", 0)),
                                      heartbeat_timeout=C.Duration(seconds=c.get("hb", 0)),
                                      retry_strategy=self._retry_strategy(pos, st.get("retry"), recname=pos + " submitter"))
        w = self.w

        def submitter(callback_id, wctx):
            r = self._user_fn(pos, st.get("fn", {}), "submitter", wctx.logger, recname=pos + " submitter")
            w.rec("submitted", pos=pos, callback_id=callback_id)
            w.backend.notify_submitted(callback_id)
            return r

        return ctx.wait_for_callback(submitter, name=pos, config=cfg)

    def op_invoke(self, ctx, st, pos, item):
        C = self.cfgmod
        kw = {}
        sd = st.get("serdes")
        if sd in ("payload", "both"):
            kw["serdes_payload"] = _x_serdes(self.serdes)
        if sd in ("result", "both"):
            kw["serdes_result"] = _x_serdes(self.serdes)
        if st.get("fserdes"):
            # the payload goes through a user SerDes around an external store that may fail (before anything is recorded)
            kw["serdes_payload"] = _flaky_serdes(self.serdes, self.w, pos, st["fserdes"])
        if not kw and "timeout" not in st:
            return ctx.invoke(st.get("target", "fn-x"), mkvalue(st.get("payload", ["none"])), name=pos)  # no InvokeConfig
        cfg = C.InvokeConfig(timeout=C.Duration(seconds=st.get("timeout", 0)), **kw)
        return ctx.invoke(st.get("target", "fn-x"), mkvalue(st.get("payload", ["none"])), name=pos, config=cfg)

    def op_wfcond(self, ctx, st, pos, item):
        W = self.waits
        D = self.cfgmod.Duration
        decs = st["strategy"]
        w = self.w

        def strategy(state, attempt):
            d = decs[min(attempt, len(decs)) - 1]
            w.rec("wstrategy", pos=pos, attempt=attempt, state=canon(state), cont="cont" in d,
                  delay=d.get("cont"))
            if st.get("ctor"):
                # decisions built with the dataclass constructor, as the SDK's own tests do
                if "cont" in d:
                    return W.WaitForConditionDecision(should_continue=True, delay=D(seconds=d["cont"]))
                return W.WaitForConditionDecision(should_continue=False, delay=D())
            if "cont" in d:
                return W.WaitForConditionDecision.continue_waiting(D(seconds=d["cont"]))
            return W.WaitForConditionDecision.stop_polling()

        def check(state, cctx):
            w.rec("check-enter", pos=pos, state=canon(state))
            return self._user_fn(pos, st.get("check", {}), "check", cctx.logger)

        cfg = W.WaitForConditionConfig(wait_strategy=strategy, initial_state=mkvalue(st.get("initial", ["int", 0])),
                                       serdes=self._fserdes(st, pos))
        return ctx.wait_for_condition(check, cfg, name=pos)

    def op_child(self, ctx, st, pos, item):
        def body(child_ctx):
            rec = self.w.backend.by_name(pos)
            self.w.rec("body-enter", pos=pos, bkind="child", status=None if rec is None else rec["Status"],
                       rc=bool(rec and (rec.get("ContextDetails") or {}).get("ReplayChildren")))
            if st.get("setlog"):
                child_ctx.set_logger(CapLogger(self.w))  # a user-supplied logger installed on the child context
            rr = st.get("rebuild_raise")
            if rr and rec is not None and rec["Status"] == "SUCCEEDED":
                # user code of the body meets a transient failure of its environment while the SDK runs the body again to
                # rebuild a summarised result (the n-th such traversal, counted over the whole execution)
                c = self.w.serdes_calls.setdefault(pos + "#rebuild", {"n": 0})
                c["n"] += 1
                if c["n"] in rr["n"]:
                    self.w.fire("rebuild-raise:" + rr["cls"])
                    self.w.rec("serdes-fail", pos=pos, which="rebuild", n=c["n"])
                    raise make_exc(rr["cls"], "downstream throttled while rebuilding the result")
            obs = self.run_seq(child_ctx, st["body"], pos + "/c", item)
            v = self._ret_value(st.get("ret"), obs)
            self.w.rec("body-exit", pos=pos, bkind="child", v=canon(v))
            return v

        fs = self._fserdes(st, pos)
        if st.get("deco"):
            def named(child_ctx):
                return body(child_ctx)
            named.__name__ = pos
            bound = self.ctxmod.durable_with_child_context(named)()
            if fs is not None:
                return ctx.run_in_child_context(bound, config=self.cfgmod.ChildConfig(serdes=fs))
            return ctx.run_in_child_context(bound)
        if fs is not None:
            return ctx.run_in_child_context(body, name=pos, config=self.cfgmod.ChildConfig(serdes=fs))
        return ctx.run_in_child_context(body, name=pos)

    def _ret_value(self, ret, obs):
        if ret is None:
            return obs
        if ret == ["last"]:  # the raw value of the body's last durable call, e.g. the BatchResult of a nested map/parallel
            t = _sim.current_thread()
            return self.last_raw.get(t.idx if t else -1)
        return mkvalue(ret)

    def _batch_serdes(self, kw, c, pos):
        for key in ("serdes", "item_serdes"):
            if c.get(key):
                spec = c[key] if isinstance(c[key], dict) else {"tag": c[key]}
                kw[key] = _flaky_serdes(self.serdes, self.w, f"{pos}#{key}", spec)

    def _fserdes(self, st, pos):
        spec = st.get("fserdes")
        return None if spec is None else _flaky_serdes(self.serdes, self.w, pos, spec)

    def _completion(self, c):
        C = self.cfgmod
        if c.get("preset"):
            return getattr(C.CompletionConfig, c["preset"])()
        return C.CompletionConfig(min_successful=c.get("min"), tolerated_failure_count=c.get("tol"),
                                  tolerated_failure_percentage=c.get("pct"))

    def _branch_body(self, pos, b, body, ret, item_wrap=False, setlog=False):
        w = self.w

        def run(child_ctx, item=None):
            bpos = f"{pos}/b{b}"
            rec = w.backend.find_branch(pos, b)
            w.rec("body-enter", pos=bpos, bkind="branch", parent=pos, index=b,
                  status=None if rec is None else rec["Status"],
                  rc=bool(rec and (rec.get("ContextDetails") or {}).get("ReplayChildren")))
            if setlog:
                child_ctx.set_logger(CapLogger(w))
            try:
                obs = self.run_seq(child_ctx, body, bpos, item)
                v = self._ret_value(ret, obs)
            except BaseException as e:  # noqa: BLE001
                w.rec("body-exit", pos=bpos, bkind="branch", parent=pos, index=b, outcome="raise",
                      cls=type(e).__name__, msg=str(e))
                raise
            w.rec("body-exit", pos=bpos, bkind="branch", parent=pos, index=b, outcome="ret", v=canon(v))
            return v

        return run

    def op_parallel(self, ctx, st, pos, item):
        C = self.cfgmod
        c = st.get("cfg")
        fns = []
        for b, br in enumerate(st["branches"]):
            run = self._branch_body(pos, b, br["body"], br.get("ret"), setlog=bool(br.get("setlog")))
            fn = lambda child_ctx, run=run, item=item: run(child_ctx, item)  # noqa: E731
            if st.get("eqfn"):
                # value objects as branch callables (think frozen dataclass with __call__): branches with the same
                # specification compare equal although they are different positions
                import json as _json
                fn = _EqCallable(_json.dumps([br["body"], br.get("ret")], sort_keys=True), fn)
            fns.append(fn)
        cfg = None
        if c is not None:
            kw = {"max_concurrency": c.get("conc"), "completion_config": self._completion(c)}
            self._batch_serdes(kw, c, pos)
            if c.get("summary"):
                from aws_durable_execution_sdk_python.operation.parallel import ParallelSummaryGenerator
                kw["summary_generator"] = ParallelSummaryGenerator()
            cfg = C.ParallelConfig(**kw)
        return ctx.parallel(fns, name=pos, config=cfg)

    def op_map(self, ctx, st, pos, item):
        C = self.cfgmod
        c = st.get("cfg")
        items = [mkvalue(x) for x in st["items"]]
        bodies = st.get("bodies")
        w = self

        def fn(child_ctx, it, index, all_items):
            body = bodies[index] if bodies is not None else st["body"]
            ret = st.get("rets", [None] * len(items))[index] if st.get("rets") else st.get("ret")
            run = w._branch_body(pos, index, body, ret)
            return run(child_ctx, it)

        cfg = None
        if c is not None:
            kw = {"max_concurrency": c.get("conc"), "completion_config": self._completion(c)}
            self._batch_serdes(kw, c, pos)
            if c.get("summary"):
                from aws_durable_execution_sdk_python.operation.map import MapSummaryGenerator
                kw["summary_generator"] = MapSummaryGenerator()
            cfg = C.MapConfig(**kw)
        return ctx.map(items, fn, name=pos, config=cfg)
