#!/bin/bash
# usage: selftest/sweep.sh <tier> <seed>...   - runs every check with each VERIF_SEED, prints one line per check
tier=$1; shift
cd "$(dirname "$0")/.."
export DEXSIM_EVIDENCE_DIR=${DEXSIM_EVIDENCE_DIR:-/tmp/sweep_ev} DEXSIM_OUT_DIR=${DEXSIM_OUT_DIR:-$PWD/out_sweep}
mkdir -p $DEXSIM_EVIDENCE_DIR
for s in "$@"; do
  for c in C01 C02 C03 C04 C05 C06 C07 C08 C09 C10 C11 C12 C13 C14 C16 C17 C18 C19; do
    out=$(VERIF_SEED=$s timeout 3600 /venv/bin/python -m dexsim check $c --tier $tier 2>&1)
    rc=$?
    echo "seed=$s $c exit=$rc $(echo "$out" | grep -o 'executions=[0-9]*') $(echo "$out" | grep -o 'wall=[0-9.]*s')"
    if [ $rc -ne 0 ]; then echo "$out" | grep -A3 "VIOLATION\|HARNESS" | head -40; fi
  done
done
