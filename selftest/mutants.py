"""Sensitivity self-test: every seeded change under /verif/seeded/<id>/patch.diff must make
the check of its property report a VIOLATION, and the unpatched tree must not.

usage: python selftest/mutants.py [ids...]   (default: all)
For each id a scratch git worktree of /repo is created under $TMPDIR, the patch applied, the
check run with DEXSIM_SDK_SRC pointing at it, and the worktree removed again."""

from __future__ import annotations

import json
import os
import subprocess
import sys
import tempfile
import time

ROOT = os.path.dirname(os.path.dirname(os.path.abspath(__file__)))

#: seeded changes that are decided by another property's check than the one they were written for
OWNER = {"C08_r2": "C19", "C07_r4": "C06", "C18_r4": "C16", "C16_r5": "C09", "C02_r6": "C13", "C11_r6": "C06", "C07_r7": "C06", "C18_r7": "C06", "C11_r5": "C01", "C02_r8": "C12", "C06_r4": "C04", "C01_r9": "C09", "C16_r9": "C10", "C01_r10": "C02", "C02_r10": "C16", "C08_r10": "C16", "C07_r10": "C09"}

#: seeded changes only the thorough tier reaches (a 3-thread ordering inside two adjacent statements plus an in-process
#: resubmission: about one evaluation in a few thousand); they are run in that tier whatever MUTANT_TIER says
THOROUGH_ONLY = {"C08_r8", "C17_r9", "C07_r9", "C07_r11"}

#: seeded changes no check decides (see the seed's meta.json and DESIGN.md 12.7); they are run and reported, not counted
UNDECIDED = {"C08_r5"}


def sh(cmd, cwd=None, env=None, timeout=3600):
    e = dict(os.environ)
    e.update(env or {})
    p = subprocess.run(cmd, shell=True, cwd=cwd, env=e, capture_output=True, text=True, timeout=timeout)
    return p.returncode, p.stdout + p.stderr


def main():
    ids = sys.argv[1:] or sorted(os.listdir(os.path.join(ROOT, "seeded")))
    tier = os.environ.get("MUTANT_TIER", "quick")
    results = {}
    for name in ids:
        pid = OWNER.get(name, name.split("_")[0])
        patch = os.path.join(ROOT, "seeded", name, "patch.diff")
        if not os.path.exists(patch):
            continue
        wt = tempfile.mkdtemp(prefix=f"dexsim_mut_{name}_")
        os.rmdir(wt)
        try:
            rc, out = sh(f"git -C /repo worktree add -q {wt} HEAD")
            if rc:
                results[name] = {"error": out[-300:]}
                continue
            rc, out = sh(f"git apply {patch}", cwd=wt)
            if rc:
                results[name] = {"error": "patch does not apply (rebase it on the current /repo): " + out[-300:]}
                print(name, json.dumps(results[name]), flush=True)
                continue
            t = time.time()
            tier_ = "thorough" if name in THOROUGH_ONLY else tier
            rc, out = sh(f"/venv/bin/python -m dexsim check {pid} --tier {tier_}", cwd=ROOT,
                         env={"DEXSIM_SDK_SRC": f"{wt}/src", "DEXSIM_EVIDENCE_DIR": os.path.join(wt, "_ev"),
                              "DEXSIM_OUT_DIR": os.path.join(wt, "_out")})
            classes = [l.strip().split()[0] for l in out.splitlines() if l.strip().startswith("class=")]
            results[name] = {"check": pid, "tier": tier_, "exit": rc, "wall_s": round(time.time() - t, 1), "classes": classes,
                            "detected": rc == 1 and any(l.startswith("VIOLATION property=" + pid) for l in out.splitlines())}
        finally:
            sh(f"git -C /repo worktree remove --force {wt}")
            sh(f"rm -rf {wt}")
        print(name, json.dumps(results[name]), flush=True)
    missed = [p for p, r in results.items() if not r.get("detected") and p not in UNDECIDED]
    undecided = [p for p in results if p in UNDECIDED]
    print(f"mutants: {len(results) - len(missed) - len(undecided)}/{len(results) - len(undecided)} detected; missed: {missed}; "
          f"undecided by design: {[(p, results[p].get('detected')) for p in undecided]}")
    sys.exit(1 if missed else 0)


if __name__ == "__main__":
    main()
