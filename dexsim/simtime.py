"""Simulated `time` and `datetime` namespaces reading the virtual clock."""

from __future__ import annotations

import datetime as _dt

from dexsim import sim as _sim


def _now_sdk():
    s = _sim.CURRENT
    if s is None:
        return 1_700_000_000.0
    return s.sdk_time()


def time():
    return _now_sdk()


def monotonic():
    s = _sim.CURRENT
    return 0.0 if s is None else s.clock.now


perf_counter = monotonic


def sleep(seconds):
    s = _sim.CURRENT
    if s is not None:
        s.sleep(seconds, False, "time.sleep")


class _SimDateTime(_dt.datetime):
    @classmethod
    def now(cls, tz=None):
        return _dt.datetime.fromtimestamp(_now_sdk(), tz)

    @classmethod
    def utcnow(cls):
        return _dt.datetime.fromtimestamp(_now_sdk(), _dt.UTC).replace(tzinfo=None)

    @classmethod
    def fromtimestamp(cls, ts, tz=None):
        return _dt.datetime.fromtimestamp(ts, tz)


class _DatetimeNS:
    """Stands in for the `datetime` module inside suspend.py / lambda_service.py."""

    datetime = _SimDateTime
    UTC = _dt.UTC
    timezone = _dt.timezone
    timedelta = _dt.timedelta
    date = _dt.date


datetime_ns = _DatetimeNS()


class _RandomNS:
    def __init__(self):
        import random as _r
        import threading as _t
        self._rng = _r.Random(0)
        self._tl = _t.local()  # per-thread list of draws, while a caller observes them (C12: exact jitter)

    def seed(self, n):
        self._rng.seed(n)

    def random(self):
        r = self._rng.random()
        draws = getattr(self._tl, "draws", None)
        if draws is not None:
            draws.append(r)
        return r

    def observe(self):
        """Start recording this thread's draws; returns the list (stop with unobserve())."""
        self._tl.draws = []
        return self._tl.draws

    def unobserve(self):
        self._tl.draws = None


random_ns = _RandomNS()
